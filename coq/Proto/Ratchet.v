(* C04: the key-id window under FIFO delivery.

   Each party names, in every data message, the id of its own sending key (its current key id minus one) and the id
   of the peer key it encrypts to (the newest it knows).  A receiver accepts only ids inside its 2 x 2 window
   (pickOurKeys / pickTheirKey, C02) and moves the window when the message names its newest key / announces a new one
   (rotateOurKeys / rotateTheirKey).  This file proves, for EVERY schedule of sends by either side and in-order
   deliveries, that the ids of every message are inside the receiver's window at the moment it arrives - so no
   genuine message is ever refused for its key ids, however sends and deliveries interleave and however many
   rotations happen.  (That the keys behind equal ids are equal, and the counters, is the part of C04 that rests on
   the correspondence runs; see DESIGN.md 11.3.) *)
From Coq Require Import List NArith Lia Bool.
Import ListNotations.
Open Scope N_scope.

Record side := { our : N; their : N }.          (* ourKeyID, theirKeyID of Proto/Keys.v *)
Record msg := { m_sk : N; m_rk : N }.           (* sender key id, recipient key id *)

(* genDataMsg: sender key = our current id - 1, recipient key = the newest peer key id we know *)
Definition emit (x : side) : msg := {| m_sk := our x - 1; m_rk := their x |}.
(* sessionKeysFor succeeds only inside the window *)
Definition ids_in_window (x : side) (m : msg) : Prop :=
  (m_rk m = our x \/ m_rk m + 1 = our x) /\ (m_sk m = their x \/ m_sk m + 1 = their x).
(* rotateOurKeys / rotateTheirKey *)
Definition absorb (x : side) (m : msg) : side :=
  {| our := if m_rk m =? our x then our x + 1 else our x;
     their := if m_sk m =? their x then their x + 1 else their x |}.

(* the receiver works through a queue; every message must be in the window when its turn comes *)
Fixpoint all_in_window (x : side) (q : list msg) : Prop :=
  match q with
  | [] => True
  | m :: r => ids_in_window x m /\ all_in_window (absorb x m) r
  end.
Fixpoint after (x : side) (q : list msg) : side :=
  match q with [] => x | m :: r => after (absorb x m) r end.

Lemma absorb_mono x m : our x <= our (absorb x m) /\ their x <= their (absorb x m).
Proof. unfold absorb; cbn. destruct (m_rk m =? our x), (m_sk m =? their x); lia. Qed.
Lemma after_mono q : forall x, our x <= our (after x q) /\ their x <= their (after x q).
Proof.
  induction q as [|m r IH]; intros x; cbn; [lia|].
  destruct (absorb_mono x m), (IH (absorb x m)). lia.
Qed.
Lemma all_in_window_app x q m : all_in_window x (q ++ [m]) <-> all_in_window x q /\ ids_in_window (after x q) m.
Proof. revert x; induction q as [|h r IH]; intros x; cbn; [tauto|]. rewrite IH. tauto. Qed.
Lemma after_app x q m : after x (q ++ [m]) = absorb (after x q) m.
Proof. revert x; induction q as [|h r IH]; intros x; cbn; [reflexivity|apply IH]. Qed.

(* one direction: sender s, receiver r, queue q of messages from s to r *)
Record dir_inv (s r : side) (q : list msg) : Prop := {
  d_sent : Forall (fun m => m_rk m <= their s /\ m_sk m + 1 <= our s) q;   (* ids are ones the sender had *)
  d_ok : all_in_window r q;                                                  (* each will be in the window *)
  d_their : our s <= their (after r q) + 1 /\ their (after r q) <= our s;    (* receiver's future knowledge of sender keys *)
  d_our : their s <= our (after r q) /\ our (after r q) <= their s + 1;      (* and which of its own keys the sender knows *)
  d_pos : 1 <= their s /\ 2 <= our s /\ 1 <= their r /\ 2 <= our r
}.

(* the sender emits a message *)
Lemma dir_send s r q : dir_inv s r q -> dir_inv s r (q ++ [emit s]).
Proof.
  intros [Hs Hok [T1 T2] [O1 O2] P]. set (f := after r q) in *.
  assert (W : ids_in_window f (emit s)).
  { unfold ids_in_window, emit; cbn. split; lia. }
  constructor.
  - apply Forall_app. split; [exact Hs|]. constructor; [|constructor]. unfold emit; cbn. lia.
  - apply all_in_window_app. split; assumption.
  - rewrite after_app. fold f. unfold absorb, emit; cbn.
    destruct (N.eqb_spec (our s - 1) (their f)); lia.
  - rewrite after_app. fold f. unfold absorb, emit; cbn.
    destruct (N.eqb_spec (their s) (our f)); lia.
  - exact P.
Qed.

(* the receiver takes the head of the queue *)
Lemma dir_recv s r m q : dir_inv s r (m :: q) -> ids_in_window r m /\ dir_inv s (absorb r m) q.
Proof.
  intros [Hs [Hw Hok] T O P]. split; [exact Hw|]. inversion Hs as [|? ? _ Hs']; subst.
  constructor; auto. destruct P as [? [? [? ?]]]. destruct (absorb_mono r m). repeat split; lia.
Qed.

(* the SENDER of this direction absorbs a message m' of the other direction (which it receives as the receiver there):
   what has to hold of m' is that its ids are ones the peer really had *)
Lemma dir_sender_absorbs s r q m' :
  dir_inv s r q -> ids_in_window s m' ->
  m_rk m' <= their r -> m_sk m' + 1 <= our r ->
  dir_inv (absorb s m') r q.
Proof.
  intros [Hs Hok [T1 T2] [O1 O2] P] Hw Hrk Hsk. set (f := after r q) in *.
  destruct (after_mono q r) as [Mo Mt]. fold f in Mo, Mt.
  destruct (absorb_mono s m') as [Ao At].
  constructor.
  - eapply Forall_impl; [|exact Hs]. intros a H. cbv beta in *. destruct H as [H1 H2]. split; lia.
  - exact Hok.
  - fold f. unfold absorb; cbn. destruct (N.eqb_spec (m_rk m') (our s)); lia.
  - fold f. unfold absorb; cbn. destruct (N.eqb_spec (m_sk m') (their s)); lia.
  - destruct P as [? [? [? ?]]]. repeat split; lia.
Qed.

(* ---------- the two-party system ---------- *)
Record net := { nA : side; nB : side; qAB : list msg; qBA : list msg }.
Inductive ev := SendA | SendB | DeliverAB | DeliverBA.

Definition net_inv (n : net) : Prop := dir_inv (nA n) (nB n) (qAB n) /\ dir_inv (nB n) (nA n) (qBA n).

(* a delivery with an empty queue is a no-op *)
Definition step (n : net) (e : ev) : net :=
  match e with
  | SendA => {| nA := nA n; nB := nB n; qAB := qAB n ++ [emit (nA n)]; qBA := qBA n |}
  | SendB => {| nA := nA n; nB := nB n; qAB := qAB n; qBA := qBA n ++ [emit (nB n)] |}
  | DeliverAB => match qAB n with
                 | [] => n
                 | m :: q => {| nA := nA n; nB := absorb (nB n) m; qAB := q; qBA := qBA n |}
                 end
  | DeliverBA => match qBA n with
                 | [] => n
                 | m :: q => {| nA := absorb (nA n) m; nB := nB n; qAB := qAB n; qBA := q |}
                 end
  end.

(* what is delivered at this step is inside the receiver's window *)
Definition delivery_ok (n : net) (e : ev) : Prop :=
  match e with
  | DeliverAB => match qAB n with [] => True | m :: _ => ids_in_window (nB n) m end
  | DeliverBA => match qBA n with [] => True | m :: _ => ids_in_window (nA n) m end
  | _ => True
  end.

(* right after the key exchange: our key id 2 (key 1 was used in the exchange), their key id 1 *)
Definition net_init : net :=
  {| nA := {| our := 2; their := 1 |}; nB := {| our := 2; their := 1 |}; qAB := []; qBA := [] |}.

Lemma net_init_inv : net_inv net_init.
Proof. split; constructor; cbn; auto; lia. Qed.

Lemma head_sent s r m q : dir_inv s r (m :: q) -> m_rk m <= their s /\ m_sk m + 1 <= our s.
Proof. intros [Hs _ _ _ _]. inversion Hs; subst; assumption. Qed.

Lemma step_inv n e : net_inv n -> delivery_ok n e /\ net_inv (step n e).
Proof.
  intros [IA IB]. destruct e; cbn.
  - split; [exact I|]. split; cbn; [apply dir_send; exact IA | exact IB].
  - split; [exact I|]. split; cbn; [exact IA | apply dir_send; exact IB].
  - destruct (qAB n) as [|m q] eqn:E; [split; [exact I | split; [rewrite E; exact IA | exact IB]]|].
    destruct (head_sent _ _ _ _ IA) as [H1 H2]. destruct (dir_recv _ _ _ _ IA) as [Hw IA'].
    split; [exact Hw|]. split; cbn; [exact IA'|].
    apply dir_sender_absorbs; assumption.
  - destruct (qBA n) as [|m q] eqn:E; [split; [exact I | split; [exact IA | rewrite E; exact IB]]|].
    destruct (head_sent _ _ _ _ IB) as [H1 H2]. destruct (dir_recv _ _ _ _ IB) as [Hw IB'].
    split; [exact Hw|]. split; cbn; [|exact IB'].
    apply dir_sender_absorbs; assumption.
Qed.

(* every delivery of every schedule finds the message inside the receiver's window *)
Fixpoint run_ok (n : net) (sched : list ev) : Prop :=
  match sched with
  | [] => True
  | e :: r => delivery_ok n e /\ run_ok (step n e) r
  end.

Theorem window_never_missed sched : forall n, net_inv n -> run_ok n sched.
Proof.
  induction sched as [|e r IH]; intros n Hn; cbn; [exact I|].
  destruct (step_inv n e Hn) as [Hd Hn']. split; [exact Hd | apply IH; exact Hn'].
Qed.

Corollary window_never_missed_from_start sched : run_ok net_init sched.
Proof. apply window_never_missed, net_init_inv. Qed.

(* non-vacuity: a crossing schedule with rotations on both sides *)
Definition example_schedule : list ev :=
  [SendA; SendB; DeliverAB; DeliverBA; SendA; SendA; DeliverAB; SendB; DeliverBA; DeliverAB; DeliverAB; SendB; DeliverBA].
Example crossing_schedule_rotates :
  (nA (fold_left step example_schedule net_init), nB (fold_left step example_schedule net_init)) =
  ({| our := 3; their := 3 |}, {| our := 3; their := 2 |}).
Proof. vm_compute. reflexivity. Qed.

(* ---------- the abstraction is the key-id dynamics of Proto/Keys.v ---------- *)
From OTR Require Import Go.Base Proto.SmpTypes Proto.Keys Proto.KeysProofs.

Definition side_of (k : keyctx) : side := {| our := ourKeyID k; their := theirKeyID k |}.
Definition msg_of (d : sdata) : msg := {| m_sk := af_sk (d_fields d); m_rk := af_rk (d_fields d) |}.

(* sending: the ids written into the message are [emit], the sender's ids do not move *)
Theorem gen_is_emit k h flag pl d k' x : genDataMsg k h flag pl = Ok (d, k', x) ->
  msg_of d = emit (side_of k) /\ side_of k' = side_of k.
Proof.
  intros H. destruct (genDataMsg_spec _ _ _ _ _ _ _ H) as [keys [_ [_ [_ [_ [_ [_ [_ [_ [_ [Hsk [Hrk [_ [_ [_ [_ [_ [_ [_ [Ho Ht]]]]]]]]]]]]]]]]]]]].
  unfold msg_of, emit, side_of. cbn. rewrite Hsk, Hrk, Ho, Ht. split; reflexivity.
Qed.

(* receiving: an accepted message was inside the window, and the receiver's ids move exactly as [absorb] says *)
Theorem recv_is_absorb k d x pl k' xk : recvDataMsg k d x = Ok (pl, k', xk) ->
  ids_in_window (side_of k) (msg_of d) /\ side_of k' = absorb (side_of k) (msg_of d).
Proof.
  unfold recvDataMsg. destruct (negb (d_wellformed d)); [discriminate|].
  set (f := d_fields d).
  destruct (sessionKeysFor k (af_rk f) (af_sk f)) as [keys| |] eqn:Ek; cbn [bindR]; try discriminate.
  destruct (negb (mac_valid d (receivingKey keys))); [discriminate|].
  destruct (checkMessageCounter k (af_rk f) (af_sk f) (af_ctr f)) as [k1| |] eqn:Ec; cbn [bindR]; try discriminate.
  destruct (_ && _); [|discriminate]. intros H. injection H as _ <- _.
  destruct (sessionKeys_window _ _ _ _ Ek) as [Hrk0 [Hsk0 [Hrk Hsk]]].
  destruct (checkMessageCounter_spec k (af_rk f) (af_sk f) (af_ctr f)) as [S1 S2].
  destruct (N.le_gt_cases (af_ctr f) (ctr_of (counters k) (af_rk f) (af_sk f))) as [Hle|Hgt].
  { rewrite (S1 Hle) in Ec. discriminate. }
  destruct (S2 Hgt) as [k1' [E1 [_ [_ [Ho [Ht _]]]]]]. rewrite Ec in E1. injection E1 as <-.
  split.
  - unfold ids_in_window, side_of, msg_of. cbn. fold f. split.
    + destruct Hrk as [E|E]; [left; exact E | right; lia].
    + destruct Hsk as [E|E]; [left; exact E | right; lia].
  - unfold side_of, absorb, msg_of. cbn. fold f.
    set (k2 := addKeys k1 (af_rk f) (af_sk f) (receivingKey keys)).
    destruct (ids_addKeys k1 (af_rk f) (af_sk f) (receivingKey keys)) as [A1 A2]. fold k2 in A1, A2.
    assert (R1 : ourKeyID (rotateOurKeys k2 (af_rk f) x) = if af_rk f =? ourKeyID k then ourKeyID k + 1 else ourKeyID k).
    { unfold rotateOurKeys. rewrite A1, Ho. destruct (af_rk f =? ourKeyID k); [destruct (forgetMACKeys _ _)|]; cbn; congruence. }
    assert (R2 : theirKeyID (rotateOurKeys k2 (af_rk f) x) = theirKeyID k) by (rewrite ids_rotateOurs; congruence).
    unfold rotateTheirKey. rewrite R2.
    destruct (af_sk f =? theirKeyID k); [destruct (forgetMACKeys _ _)|]; cbn; rewrite ?R1, ?R2; reflexivity.
Qed.
