(* C08 over every history: session secrets exist only while the conversation is encrypted.
   Invariant S8: not encrypted -> the key context holds no D-H private key, no earlier peer key, no counters, no MAC keys.
   Same method as Proto/Lifecycle.v; the two places that install a new key context (building and accepting a data
   message) run only in the encrypted state and are proved by inversion. *)
From OTR Require Import Go.Base Gen.Consts Bytes.Text Proto.SmpTypes Proto.Keys Proto.KeysProofs Proto.Smp Proto.SmpInst Proto.Conv Proto.ConvProofs Proto.Lifecycle Proto.AkeAuth Proto.Delivery.
From RecordUpdate Require Import RecordSet.
Import RecordSetNotations.
Open Scope N_scope.

(* nothing of a session is left in the key context *)
Definition keys_gone (k : keyctx) : Prop :=
  ourCurrent k = None /\ ourPrevious k = None /\ theirPrevious k = None /\
  counters k = [] /\ macHistory k = [] /\ oldMACKeys k = [].
(* session secrets exist only while the conversation is encrypted; SMP state likewise *)
Definition S8 (c : conv) : Prop := c_msgState c <> c_encrypted -> keys_gone (c_keys c).
Definition sp (c : conv) := (c_msgState c, c_keys c).
Lemma S8_same c c' : sp c' = sp c -> S8 c -> S8 c'.
Proof. unfold sp, S8. intros E. injection E as -> ->. auto. Qed.

Definition b8 {A} (m : M A) : Prop := forall c ev a c' ev', m c ev = (a, c', ev') -> S8 c -> S8 c'.
Lemma b8_bind {A B} (m : M A) (f : A -> M B) : b8 m -> (forall a, b8 (f a)) -> b8 (bind m f).
Proof.
  intros Hm Hf c ev b c' ev' E I. apply bind_eq in E as [a [c1 [ev1 [E1 E]]]].
  exact (Hf a _ _ _ _ _ E (Hm _ _ _ _ _ E1 I)).
Qed.
Lemma b8_ret {A} (a : A) : b8 (ret a). Proof. intros c ev a' c' ev' E I. injection E as _ <- _. exact I. Qed.
Lemma b8_get : b8 get. Proof. intros c ev a' c' ev' E I. injection E as _ <- _. exact I. Qed.
Lemma b8_fresh : b8 fresh. Proof. intros c ev a' c' ev' E I. unfold fresh, draw in E. injection E as _ <- _. exact I. Qed.
Lemma b8_event e : b8 (event e). Proof. intros c ev a' c' ev' E I. injection E as _ <- _. exact I. Qed.
Lemma b8_modify f : (forall c, S8 c -> S8 (f c)) -> b8 (modify f).
Proof. intros H c ev a' c' ev' E I. injection E as _ <- _. apply H; exact I. Qed.
Lemma b8_pure {A} (f : conv -> list N -> A) : b8 (fun c ev => (f c ev, c, ev)).
Proof. intros c ev a' c' ev' E I. injection E as _ <- _. exact I. Qed.
Lemma b8_evs {A} (x : A) (g : list N -> list N) : b8 (fun c ev => (x, c, g ev)).
Proof. intros c ev a' c' ev' E I. injection E as _ <- _. exact I. Qed.

Ltac s8solve :=
  first
  [ (eapply S8_same; [reflexivity | eassumption])
  | (* the conversation becomes encrypted: nothing to show *)
    (intros Hne; exfalso; apply Hne; reflexivity)
  | (* it leaves the encrypted state with an emptied key context *)
    (intros _; repeat split; reflexivity) ].

Create HintDb b8.
Ltac b8_tac :=
  repeat first
  [ solve [auto with b8]
  | progress cbv zeta
  | apply b8_get | apply b8_fresh | apply b8_event | apply b8_evs | apply b8_ret | apply b8_pure
  | (apply b8_modify; intros ? ?; solve [s8solve])
  | (apply b8_bind; [|intros ?])
  | match goal with
    | |- b8 (if ?b then _ else _) => destruct b
    | |- b8 (match ?x with _ => _ end) => destruct x
    | |- b8 (let '(_, _) := ?x in _) => destruct x
    end ].

Lemma b8_commitToVersionFrom v : b8 (commitToVersionFrom v). Proof. unfold commitToVersionFrom. b8_tac. Qed.
#[export] Hint Resolve b8_commitToVersionFrom : b8.
Lemma b8_generateInstanceTag : b8 generateInstanceTag. Proof. unfold generateInstanceTag. b8_tac. Qed.
#[export] Hint Resolve b8_generateInstanceTag : b8.
Lemma b8_malformedMessage : b8 malformedMessage. Proof. unfold malformedMessage. b8_tac. Qed.
#[export] Hint Resolve b8_malformedMessage : b8.
Lemma b8_verifyInstanceTags a b : b8 (verifyInstanceTags a b). Proof. unfold verifyInstanceTags. b8_tac. Qed.
#[export] Hint Resolve b8_verifyInstanceTags : b8.
Lemma b8_messageHeader : b8 messageHeader. Proof. unfold messageHeader. b8_tac. Qed.
#[export] Hint Resolve b8_messageHeader : b8.
Lemma b8_wrap b : b8 (wrap b). Proof. unfold wrap. b8_tac. Qed.
#[export] Hint Resolve b8_wrap : b8.
Lemma b8_generatePotentialErrorMessage x : b8 (generatePotentialErrorMessage x). Proof. unfold generatePotentialErrorMessage. b8_tac. Qed.
#[export] Hint Resolve b8_generatePotentialErrorMessage : b8.
Lemma b8_withInjects x : b8 (withInjects x). Proof. unfold withInjects. b8_tac. Qed.
#[export] Hint Resolve b8_withInjects : b8.
Lemma b8_updateLastSent x : b8 (updateLastSent x). Proof. unfold updateLastSent. b8_tac. Qed.
#[export] Hint Resolve b8_updateLastSent : b8.

Lemma sp_messageHeader : fp sp messageHeader. Proof. unfold messageHeader. fp_tac. Qed.

(* a data message is built only while encrypted *)
Lemma b8_genDataMsgWithFlag t f l r : b8 (genDataMsgWithFlag t f l r).
Proof.
  intros c ev a c' ev' E I. unfold genDataMsgWithFlag in E.
  apply bind_eq in E as [cg [c0 [ev0 [Eg E]]]]. apply get_eq in Eg. injection Eg as -> -> ->.
  apply if_eq in E as [[_ E]|[Hb E]]; [apply ret_eq in E; injection E as _ <- _; exact I|].
  apply negb_false_iff, N.eqb_eq in Hb.
  destruct (sessionKeysFor (c_keys c) (ourKeyID (c_keys c) - 1) (theirKeyID (c_keys c))) as [keys|e|].
  2:{ apply ret_eq in E; injection E as _ <- _; exact I. }
  2:{ apply ret_eq in E; injection E as _ <- _; exact I. }
  apply bind_eq in E as [h [c1 [ev1 [E1 E]]]]. pose proof (sp_messageHeader _ _ _ _ _ E1) as K1.
  unfold sp in K1. injection K1 as K11 K12.
  apply bind_eq in E as [cg [c1' [ev1' [Eg E]]]]. apply get_eq in Eg. injection Eg as -> -> ->.
  destruct (genDataMsg (c_keys c1) h f {| p_text := t; p_tlvs := l |}) as [[[d k'] x]|e|].
  2:{ apply ret_eq in E; injection E as _ <- _. intros Hne. exfalso. congruence. }
  2:{ apply ret_eq in E; injection E as _ <- _. intros Hne. exfalso. congruence. }
  apply bind_eq in E as [u [c2 [ev2 [E2 E]]]]. unfold modify in E2. injection E2 as _ Ec2 _. subst c2.
  apply ret_eq in E. injection E as _ Ec _. subst c'. intros Hne. exfalso. apply Hne. cbn. congruence.
Qed.
#[export] Hint Resolve b8_genDataMsgWithFlag : b8.

Lemma b8_createSerializedDataMessage n t f l : b8 (createSerializedDataMessage n t f l). Proof. unfold createSerializedDataMessage. b8_tac. Qed.
#[export] Hint Resolve b8_createSerializedDataMessage : b8.
Lemma b8_retransmit_loop msgs : forall p acc, b8 (retransmit_loop msgs p acc).
Proof. induction msgs as [|m r IH]; intros p acc; cbn [retransmit_loop]; b8_tac. Qed.
#[export] Hint Resolve b8_retransmit_loop : b8.
Lemma b8_emit_n n e : b8 (emit_n n e).
Proof. induction n as [|k IH]; cbn [emit_n]; [b8_tac|]. apply b8_bind; [apply b8_event | intros _; exact IH]. Qed.
#[export] Hint Resolve b8_emit_n : b8.
Lemma b8_maybeRetransmit n : b8 (maybeRetransmit n). Proof. unfold maybeRetransmit. b8_tac. Qed.
#[export] Hint Resolve b8_maybeRetransmit : b8.
Lemma b8_retransmitAfterAKE n : b8 (retransmitAfterAKE n). Proof. unfold retransmitAfterAKE. b8_tac. Qed.
#[export] Hint Resolve b8_retransmitAfterAKE : b8.
Lemma b8_set_ake f : b8 (set_ake f). Proof. unfold set_ake. b8_tac. Qed.
#[export] Hint Resolve b8_set_ake : b8.
Lemma b8_sendDHCommit : b8 sendDHCommit. Proof. unfold sendDHCommit. b8_tac. Qed.
#[export] Hint Resolve b8_sendDHCommit : b8.
Lemma b8_calcAKEKeys s : b8 (calcAKEKeys s). Proof. unfold calcAKEKeys. b8_tac. Qed.
#[export] Hint Resolve b8_calcAKEKeys : b8.
Lemma b8_setSentRevealSig s : b8 (setSentRevealSig s). Proof. unfold setSentRevealSig. b8_tac. Qed.
#[export] Hint Resolve b8_setSentRevealSig : b8.
Lemma b8_generateEncryptedSignature s : b8 (generateEncryptedSignature s). Proof. unfold generateEncryptedSignature. b8_tac. Qed.
#[export] Hint Resolve b8_generateEncryptedSignature : b8.
Lemma b8_processEncryptedSig a b s : b8 (processEncryptedSig a b s). Proof. unfold processEncryptedSig. b8_tac. Qed.
#[export] Hint Resolve b8_processEncryptedSig : b8.
Lemma b8_receiveDHCommit_none b : b8 (receiveDHCommit_none b). Proof. unfold receiveDHCommit_none. b8_tac. Qed.
#[export] Hint Resolve b8_receiveDHCommit_none : b8.
Lemma b8_akeHasFinished now : b8 (akeHasFinished now).
Proof.
  intros c ev a c' ev' E I. pose proof (akeHasFinished_spec now c ev) as H. rewrite E in H. destruct H as [Hs _].
  intros Hne. contradiction.
Qed.
#[export] Hint Resolve b8_akeHasFinished : b8.
Lemma b8_processAKE_body now ty body aux : b8 (processAKE_body now ty body aux). Proof. unfold processAKE_body. b8_tac. Qed.
#[export] Hint Resolve b8_processAKE_body : b8.
Lemma b8_processAKE now ty body aux : b8 (processAKE now ty body aux). Proof. unfold processAKE. b8_tac. Qed.
#[export] Hint Resolve b8_processAKE : b8.
Lemma b8_processTLVs rnd tlvs : forall x acc, b8 (processTLVs rnd tlvs x acc).
Proof. induction tlvs as [|t r IH]; intros x acc; cbn [processTLVs]; [b8_tac|]. destruct t; b8_tac; try apply IH. Qed.
#[export] Hint Resolve b8_processTLVs : b8.

(* a data message is processed only while encrypted *)
Lemma b8_processDataMessage now d rnd : b8 (processDataMessage now d rnd).
Proof.
  intros c ev a c' ev' E I. unfold processDataMessage in E.
  apply bind_eq in E as [cg [c0 [ev0 [Eg E]]]]. apply get_eq in Eg. injection Eg as -> -> ->.
  apply if_eq in E as [[_ E]|[Hb E]].
  { apply bind_eq in E as [u [c1 [ev1 [E1 E]]]]. unfold event in E1. injection E1 as _ Ec1 _. subst c1.
    apply ret_eq in E. injection E as _ <- _. exact I. }
  apply negb_false_iff, N.eqb_eq in Hb. cbv zeta in E.
  destruct (recvDataMsg (c_keys c) d (fst (draw c))) as [[[pl k'] xk]|e|].
  2:{ apply ret_eq in E. injection E as _ <- _. exact I. }
  2:{ apply ret_eq in E. injection E as _ <- _. exact I. }
  apply bind_eq in E as [u1 [c1 [ev1 [E1 E]]]].
  assert (S1 : sp c1 = sp c).
  { destruct (p_text pl); [unfold event in E1 | apply ret_eq in E1]; injection E1 as _ Ec _; subst c1; reflexivity. }
  apply bind_eq in E as [u2 [c2 [ev2 [E2 E]]]]. unfold modify in E2. injection E2 as _ Ec2 _. subst c2.
  match type of E with ?m _ _ = _ => assert (Hn : b8 m) by b8_tac end.
  apply (Hn _ _ _ _ _ E). intros Hne. exfalso. apply Hne. cbn. unfold sp in S1. injection S1 as S11 _. congruence.
Qed.
#[export] Hint Resolve b8_processDataMessage : b8.
Lemma b8_potentialHeartbeat now p : b8 (potentialHeartbeat now p). Proof. unfold potentialHeartbeat. b8_tac. Qed.
#[export] Hint Resolve b8_potentialHeartbeat : b8.
Lemma b8_receiveDataMessage now d rnd : b8 (receiveDataMessage now d rnd). Proof. unfold receiveDataMessage. b8_tac. Qed.
#[export] Hint Resolve b8_receiveDataMessage : b8.
Lemma b8_checkPlaintextPolicies : b8 checkPlaintextPolicies. Proof. unfold checkPlaintextPolicies. b8_tac. Qed.
#[export] Hint Resolve b8_checkPlaintextPolicies : b8.
Lemma b8_receiveQueryMessage now v : b8 (receiveQueryMessage now v). Proof. unfold receiveQueryMessage. b8_tac. Qed.
#[export] Hint Resolve b8_receiveQueryMessage : b8.
Lemma b8_receiveDecoded now ver stag rtag body aux rnd : b8 (receiveDecoded now ver stag rtag body aux rnd).
Proof. unfold receiveDecoded. b8_tac. Qed.
#[export] Hint Resolve b8_receiveDecoded : b8.
Lemma b8_forgetVersion b e : b8 (forgetVersion b e). Proof. unfold forgetVersion. b8_tac. Qed.
#[export] Hint Resolve b8_forgetVersion : b8.
Lemma b8_forgetTag b e : b8 (forgetTag b e). Proof. unfold forgetTag. b8_tac. Qed.
#[export] Hint Resolve b8_forgetTag : b8.
Lemma b8_finish p o e : b8 (finish p o e). Proof. unfold finish. b8_tac. Qed.
#[export] Hint Resolve b8_finish : b8.
Lemma b8_finishSend o e : b8 (finishSend o e). Proof. unfold finishSend. b8_tac. Qed.
#[export] Hint Resolve b8_finishSend : b8.
Lemma b8_receive now w aux rnd : b8 (receive now w aux rnd). Proof. unfold receive. b8_tac. Qed.
Lemma b8_send now t : b8 (send now t). Proof. unfold send. b8_tac. Qed.
Lemma b8_endConv now : b8 (endConv now). Proof. unfold endConv. b8_tac. Qed.
Lemma b8_userSMP now s rnd : b8 (userSMP now s rnd). Proof. unfold userSMP. b8_tac. Qed.
Lemma b8_sendTLVs now t : b8 (sendTLVs now t). Proof. unfold sendTLVs. b8_tac. Qed.
Lemma b8_useExtraKey now u d : b8 (useExtraKey now u d). Proof. unfold useExtraKey. b8_tac. Qed.

Lemma step_S8 now c op : S8 c -> S8 (fst (step now c op)).
Proof.
  intros I. unfold step. destruct op as [t|w aux rnd| |s rnd|u d|tlvs].
  - destruct (send now t c []) as [[r c'] ev'] eqn:E. exact (b8_send now t _ _ _ _ _ E I).
  - destruct (receive now w aux rnd c []) as [[r c'] ev'] eqn:E. exact (b8_receive now w aux rnd _ _ _ _ _ E I).
  - destruct (endConv now c []) as [[r c'] ev'] eqn:E. exact (b8_endConv now _ _ _ _ _ E I).
  - destruct (userSMP now s rnd c []) as [[r c'] ev'] eqn:E. exact (b8_userSMP now s rnd _ _ _ _ _ E I).
  - destruct (useExtraKey now u d c []) as [[r c'] ev'] eqn:E. exact (b8_useExtraKey now u d _ _ _ _ _ E I).
  - destruct (sendTLVs now tlvs c []) as [[r c'] ev'] eqn:E. exact (b8_sendTLVs now tlvs _ _ _ _ _ E I).
Qed.
Lemma run_S8 h : forall c, S8 c -> S8 (fst (run_calls c h)).
Proof.
  induction h as [|[now op] r IH]; intros c I; cbn [run_calls]; [exact I|].
  pose proof (step_S8 now c op I) as H. destruct (step now c op) as [c1 res]. cbn [fst] in H.
  specialize (IH c1 H). destruct (run_calls c1 r) as [c2 evs]. exact IH.
Qed.
Lemma S8_init who pol key : S8 (conv_init who pol key). Proof. intros _. repeat split. Qed.

(* C08 over every history: whenever the conversation is not encrypted - before a session, after End(), after the peer's
   disconnect - its key context holds no D-H private key, no earlier peer key, no counters and no MAC keys (used or
   waiting to be disclosed): every session secret is gone *)
Theorem no_session_secret_outside_a_session who pol key h :
  let c := fst (run_calls (conv_init who pol key) h) in
  c_msgState c <> c_encrypted -> keys_gone (c_keys c).
Proof. exact (run_S8 h _ (S8_init who pol key)). Qed.
