(* Concrete instance of the SMP model used by the correspondence runs: the real group order,
   a polynomial hash for the proof challenges, an injective encoding for the secret. *)
From OTR Require Import Go.Base Gen.Consts Proto.SmpTypes Proto.Smp.
Open Scope N_scope.

Definition hP : N := 2305843009213693951.        (* 2^61 - 1 *)
Definition hB : N := 1099511628211.
Definition enc_elem (e : elem) : N :=
  match e with
  | EKnown s x => 3 + 2 * x + (if s then 1 else 0)
  | EZero => 1
  | ETainted i => 2 + 7 * hB * (i + 1)
  end.
Definition Hc (ix : N) (l : list elem) : N :=
  1 + fold_left (fun h v => (h * hB + v mod hP + 977) mod hP) (map enc_elem l) (ix + 31).

(* version, two fingerprints (key ids), ssid (pair), secret: base-257 digits keep it injective *)
Definition secretHashC (v3 : bool) (ifp rfp : N) (ssid : N * N) (secret : bytes) : N :=
  fold_left (fun h b => h * 257 + b + 1) secret
            (((((if v3 then 3 else 2) * 1000 + ifp) * 1000 + rfp) * 100000 + fst ssid) * 100000 + snd ssid).

Definition smp_user_i := smp_user g_q Hc secretHashC.
Definition smp_receive_i := smp_receive g_q Hc.
