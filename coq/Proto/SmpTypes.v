(* Values carried by SMP TLVs in the symbolic model.
   A group element of Z_p^* (p = 2q+1 safe prime, g1 = 2 of order q) is represented by
   sign and exponent:  (-1)^s * g1^e.  All honest values are of this form with s = 0, and the
   harness, which supplies the randomness, knows every exponent.  0 (and p) and values of
   unknown discrete logarithm, used by the deviant-message sweeps, have their own constructors.
   A known element is "in range" (2 <= v <= p-2) iff it is not +-1, i.e. iff e <> 0 mod q. *)
From OTR Require Import Go.Base.
Open Scope N_scope.

Inductive elem : Type :=
| EKnown (neg : bool) (e : N)      (* (-1)^neg * g1^e, e reduced mod q *)
| EZero                            (* 0 mod p: never in range *)
| ETainted (id : N).               (* unknown discrete log, in range *)

Inductive sval : Type := VNum (n : N) | VEl (e : elem).

Record smp_payload := { sp_question : option bytes; sp_vals : list sval }.
