(* C07: verified exploration of every delivery schedule of a key exchange between two parties over two
   FIFO queues, on the very step function of the abstract conversation machine. *)
From OTR Require Import Go.Base Gen.Consts Corr.Val Proto.SmpTypes Proto.Keys Proto.Smp Proto.Conv Proto.Run.
Open Scope N_scope.

(* x_user: calls the users will still make (in this order), at any moment of the exchange *)
Record xstate := { x_sys : sys; x_pa : nat; x_pb : nat; x_awins : bool; x_now : N; x_user : list sop }.

Definition outs_of (x : xstate) (who : nat) : list wire := nth who (s_outs (x_sys x)) [].
Definition pendingA (x : xstate) : bool := (x_pa x <? length (outs_of x 0))%nat.
Definition pendingB (x : xstate) : bool := (x_pb x <? length (outs_of x 1))%nat.
Definition pendingU (x : xstate) : bool := match x_user x with [] => false | _ => true end.
Definition quiescent (x : xstate) : bool := negb (pendingA x) && negb (pendingB x) && negb (pendingU x).

Inductive xmove := DeliverAB | DeliverBA | UserCall.
Definition enabled (x : xstate) : list xmove :=
  (if pendingU x then [UserCall] else []) ++ (if pendingA x then [DeliverAB] else []) ++ (if pendingB x then [DeliverBA] else []).

(* the comparison of the two commitment hashes is antisymmetric: party 1 has the higher hash iff x_awins *)
Definition xapply (mv : xmove) (x : xstate) : xstate :=
  match mv with
  | DeliverAB =>
      let '(s', _) := run_op (x_sys x) (ODeliver 1 (N.of_nat (x_pa x)) 2 MNone (if x_awins x then 0 else 1) [] (x_now x)) in
      {| x_sys := s'; x_pa := S (x_pa x); x_pb := x_pb x; x_awins := x_awins x; x_now := x_now x; x_user := x_user x |}
  | DeliverBA =>
      let '(s', _) := run_op (x_sys x) (ODeliver 2 (N.of_nat (x_pb x)) 1 MNone (if x_awins x then 1 else 0) [] (x_now x)) in
      {| x_sys := s'; x_pa := x_pa x; x_pb := S (x_pb x); x_awins := x_awins x; x_now := x_now x; x_user := x_user x |}
  | UserCall =>
      match x_user x with
      | [] => x
      | o :: rest =>
          let '(s', _) := run_op (x_sys x) o in
          {| x_sys := s'; x_pa := x_pa x; x_pb := x_pb x; x_awins := x_awins x; x_now := x_now x; x_user := rest |}
      end
  end.

Definition goal (x : xstate) : bool :=
  let a := nth_conv (x_sys x) 1 in
  let b := nth_conv (x_sys x) 2 in
  (c_msgState a =? c_encrypted) && (c_msgState b =? c_encrypted) && ssid_eqb (c_ssid a) (c_ssid b) &&
  match c_ssid a with Some _ => true | None => false end.

Fixpoint explore (fuel : nat) (x : xstate) : bool :=
  if quiescent x then goal x
  else match fuel with
       | O => false
       | S f => forallb (fun mv => explore f (xapply mv x)) (enabled x)
       end.

(* every schedule from x reaches, within n deliveries, a quiescent state in which both sides are encrypted
   in one common session; in particular no schedule runs forever and none gets stuck elsewhere *)
Inductive all_schedules_ok : nat -> xstate -> Prop :=
| ok_quiet n x : quiescent x = true -> goal x = true -> all_schedules_ok n x
| ok_step n x : quiescent x = false -> enabled x <> [] ->
    (forall mv, In mv (enabled x) -> all_schedules_ok n (xapply mv x)) -> all_schedules_ok (S n) x.

Lemma enabled_nonempty x : quiescent x = false -> enabled x <> [].
Proof.
  unfold quiescent, enabled. destruct (pendingU x), (pendingA x), (pendingB x); cbn; intros H; try discriminate; congruence.
Qed.

Theorem explore_sound n : forall x, explore n x = true -> all_schedules_ok n x.
Proof.
  induction n as [|n IH]; intros x H; cbn [explore] in H.
  - destruct (quiescent x) eqn:Q; [apply ok_quiet; assumption | discriminate].
  - destruct (quiescent x) eqn:Q; [apply ok_quiet; assumption|].
    apply ok_step; [exact Q | apply enabled_nonempty; exact Q|].
    intros mv Hin. apply IH. rewrite forallb_forall in H. apply H. exact Hin.
Qed.

(* ---------------- configurations ---------------- *)
Definition qbits (p : N) : N := N.lor (if Bytes.Text.has p c_allowV2 then 4 else 0) (if Bytes.Text.has p c_allowV3 then 8 else 0).

Inductive start := SQueryOne | SQueryBoth | SWhitespace | SErrorStart | SRequireSend | SRefresh | SRefreshBoth
                 | SWhitespaceTwice | SRequireSendTwice | SAfterEnd | SAfterEndOther.

Definition after_ops (pols : list N) (ops : list sop) : sys :=
  fold_left (fun s o => fst (run_op s o)) ops (sys_init pols).

Definition handshake_ops (pa pb : N) : list sop :=
  [OInject 2 (WQuery (qbits pa)) 10; ODeliver 2 0 1 MNone 0 [] 10; ODeliver 1 0 2 MNone 0 [] 10;
   ODeliver 2 1 1 MNone 0 [] 10; ODeliver 1 1 2 MNone 0 [] 10].

Definition start_state (k : start) (pa pb : N) (awins : bool) : xstate :=
  let mku s pa_ pb_ u := {| x_sys := s; x_pa := pa_; x_pb := pb_; x_awins := awins; x_now := 500; x_user := u |} in
  let mk s pa_ pb_ := mku s pa_ pb_ [] in
  match k with
  | SQueryOne => mk (after_ops [pa; pb] [OInject 2 (WQuery (qbits pa)) 500]) 0%nat 0%nat
  | SQueryBoth => mk (after_ops [pa; pb] [OInject 2 (WQuery (qbits pa)) 500; OInject 1 (WQuery (qbits pb)) 500]) 0%nat 0%nat
  | SWhitespace =>
      mk (after_ops [N.lor pa c_sendWhitespaceTag; N.lor pb c_whitespaceStartAKE] [OSend 1 500 [104; 105]]) 0%nat 0%nat
  | SErrorStart => mk (after_ops [pa; N.lor pb c_errorStartAKE] [OInject 2 (WError [120]) 500]) 0%nat 0%nat
  | SRequireSend => mk (after_ops [N.lor pa c_requireEncryption; pb] [OSend 1 500 [104; 105]]) 0%nat 0%nat
  | SRefresh => mk (after_ops [pa; pb] (handshake_ops pa pb ++ [OInject 2 (WQuery (qbits pa)) 500])) 2%nat 2%nat
  | SRefreshBoth =>
      mk (after_ops [pa; pb] (handshake_ops pa pb ++ [OInject 2 (WQuery (qbits pa)) 500; OInject 1 (WQuery (qbits pb)) 500])) 2%nat 2%nat
  (* the user writes twice; the second message may come at any moment of the exchange the first one started *)
  | SWhitespaceTwice =>
      mku (sys_init [N.lor pa c_sendWhitespaceTag; N.lor pb c_whitespaceStartAKE]) 0%nat 0%nat [OSend 1 500 [104; 105]; OSend 1 500 [104; 111]]
  | SRequireSendTwice =>
      mku (sys_init [N.lor pa c_requireEncryption; pb]) 0%nat 0%nat [OSend 1 500 [104; 105]; OSend 1 500 [104; 111]]
  (* party 1 has just ended the session and party 2 knows; one of them asks again at once *)
  | SAfterEnd =>
      mku (after_ops [pa; pb] (handshake_ops pa pb ++ [OEnd 1 20; ODeliver 1 2 2 MNone 0 [] 20])) 3%nat 2%nat [OInject 2 (WQuery (qbits pa)) 20]
  | SAfterEndOther =>
      mku (after_ops [pa; pb] (handshake_ops pa pb ++ [OEnd 1 20; ODeliver 1 2 2 MNone 0 [] 20])) 3%nat 2%nat [OInject 1 (WQuery (qbits pb)) 20]
  end.

(* version policy pairs that share a version *)
Definition version_pairs : list (N * N) :=
  filter (fun '(a, b) => negb (N.land (N.land a b) 6 =? 0)) (list_prod [2; 4; 6] [2; 4; 6]).

Definition configs (ks : list start) : list (start * (N * N) * bool) :=
  list_prod (list_prod ks version_pairs) [true; false].

Definition check_config (cfg : start * (N * N) * bool) : bool :=
  let '(k, (pa, pb), w) := cfg in explore 30 (start_state k pa pb w).

(* ---------- C01: agreement at the end of every schedule ----------
   the same exploration with a stronger goal: both sides encrypted, the same session id, complementary halves of it to
   show, each side reports the other's long-term key, and each side's record of the peer's newest D-H key is the key the
   peer holds under that id (so that each can read what the other sends, C04) - also when queued texts have already been
   released and answered by the time the network is quiet *)
Definition opt_eqbN (a b : option N) : bool :=
  match a, b with Some x, Some y => x =? y | None, None => true | _, _ => false end.
(* the key a party holds under one of its own key ids (current or previous) *)
Definition own_key_at (k : keyctx) (id : N) : option N :=
  if id =? ourKeyID k then ourCurrent k else if id + 1 =? ourKeyID k then ourPrevious k else None.
Definition goal_agree (x : xstate) : bool :=
  let a := nth_conv (x_sys x) 1 in
  let b := nth_conv (x_sys x) 2 in
  goal x &&
  opt_eqbN (c_theirKey a) (Some (c_ourKey b)) && opt_eqbN (c_theirKey b) (Some (c_ourKey a)) &&
  negb (Bool.eqb (c_sentRevealSig a) (c_sentRevealSig b)) &&
  opt_eqbN (theirCurrent (c_keys a)) (own_key_at (c_keys b) (theirKeyID (c_keys a))) &&
  opt_eqbN (theirCurrent (c_keys b)) (own_key_at (c_keys a) (theirKeyID (c_keys b))).

Fixpoint explore_agree (fuel : nat) (x : xstate) : bool :=
  if quiescent x then goal_agree x
  else match fuel with
       | O => false
       | S f => forallb (fun mv => explore_agree f (xapply mv x)) (enabled x)
       end.
Inductive all_schedules_agree : nat -> xstate -> Prop :=
| ag_quiet n x : quiescent x = true -> goal_agree x = true -> all_schedules_agree n x
| ag_step n x : quiescent x = false -> enabled x <> [] ->
    (forall mv, In mv (enabled x) -> all_schedules_agree n (xapply mv x)) -> all_schedules_agree (S n) x.
Theorem explore_agree_sound n : forall x, explore_agree n x = true -> all_schedules_agree n x.
Proof.
  induction n as [|n IH]; intros x H; cbn [explore_agree] in H.
  - destruct (quiescent x) eqn:Q; [apply ag_quiet; assumption | discriminate].
  - destruct (quiescent x) eqn:Q; [apply ag_quiet; assumption|].
    apply ag_step; [exact Q | apply enabled_nonempty; exact Q|].
    intros mv Hin. apply IH. rewrite forallb_forall in H. apply H. exact Hin.
Qed.
Definition check_config_agree (cfg : start * (N * N) * bool) : bool :=
  let '(k, (pa, pb), w) := cfg in explore_agree 30 (start_state k pa pb w).
