(* The key-file layer above the s-expression reader (Bytes/KeyFile.v):
   1. ImportKeys terminates on every input (no reader loop above the s-expression layer either);
   2. what exportAccounts writes, ImportKeys reads back as the same accounts, for every account name without a double
      quote, every protocol that is a symbol, and all numbers;
   3. DSAPrivateKey.Import reads the five numbers of the first exported key back, whatever their digit counts. *)
From OTR Require Import Go.Base Bytes.Strconv Bytes.StrconvProofs Bytes.Sexp Bytes.SexpProofs Bytes.KeyFile.
From Coq Require Import ZifyBool ZifyN ZifyNat.
Open Scope N_scope.

(* ------------------------------------------------------------------ 1. termination *)
Lemma readValue_len l : (length (snd (readValue l)) <= length l)%nat.
Proof.
  unfold readValue. destruct (read_value (2 * length l + 4) l) as [[[v e] r]|] eqn:E; cbn [snd]; [|lia].
  apply (proj1 (read_progress _) _ _ _ _ E).
Qed.
Lemma readPotentialSymbol_len l : (length (snd (readPotentialSymbol l)) <= length l)%nat.
Proof.
  unfold readPotentialSymbol. pose proof (readValue_len l) as H. destruct (readValue l) as [[v e] r]. cbn [snd] in H.
  destruct v as [[| | | |]|]; cbn [snd]; exact H.
Qed.
Lemma readPotentialBigNum_len l : (length (snd (readPotentialBigNum l)) <= length l)%nat.
Proof.
  unfold readPotentialBigNum. pose proof (readValue_len l) as H. destruct (readValue l) as [[v e] r]. cbn [snd] in H.
  destruct v as [[| | | |]|]; cbn [snd]; exact H.
Qed.
Lemma readPotentialStringOrSymbol_len l : (length (snd (readPotentialStringOrSymbol l)) <= length l)%nat.
Proof.
  unfold readPotentialStringOrSymbol. pose proof (readValue_len l) as H. destruct (readValue l) as [[v e] r]. cbn [snd] in H.
  destruct v as [[| | | |]|]; cbn [snd]; exact H.
Qed.
Lemma readSymbolAndExpect_len s l : (length (snd (readSymbolAndExpect s l)) <= length l)%nat.
Proof.
  unfold readSymbolAndExpect. pose proof (readPotentialSymbol_len l) as H. destruct (readPotentialSymbol l) as [[res ok] r].
  exact H.
Qed.
Lemma expect_len c l : (length (snd (expect c l)) <= length l)%nat.
Proof. apply expect_length. Qed.

(* readParameter never gives back more than it got, and a round that goes on has consumed its opening parenthesis *)
Lemma readParameter_len l :
  let '(tag, v, en, ok, l') := readParameter l in
  (length l' <= length l)%nat /\ (en = false -> (length l' < length l)%nat).
Proof.
  unfold readParameter.
  destruct (expect_length 40 l) as [H0 H0']. destruct (expect 40 l) as [st l1]. cbn [fst snd] in *.
  destruct st; cbn [negb]; [|split; [exact H0|discriminate]].
  specialize (H0' eq_refl).
  pose proof (readPotentialSymbol_len l1) as H1. destruct (readPotentialSymbol l1) as [[tag ok1] l2]. cbn [snd] in H1.
  pose proof (readPotentialBigNum_len l2) as H2. destruct (readPotentialBigNum l2) as [[v ok2] l3]. cbn [snd] in H2.
  pose proof (expect_len 41 l3) as H3. destruct (expect 41 l3) as [en l4]. cbn [snd] in H3.
  destruct en; cbn [negb]; split; try lia; discriminate.
Qed.

Lemma dsa_loop_total f : forall k l, (length l < f)%nat ->
  exists r l', dsa_loop f k l = Some (r, l') /\ (length l' <= length l)%nat.
Proof.
  induction f as [|f IH]; intros k l Hf; [lia|]. cbn [dsa_loop].
  pose proof (readParameter_len l) as H. destruct (readParameter l) as [[[[tag v] en] ok] l1]. destruct H as [H1 H2].
  destruct ok; cbn [negb]; [|eauto].
  destruct en; [eauto|]. specialize (H2 eq_refl).
  destruct (assignParameter k tag v) as [k'|]; [|eauto].
  destruct (IH k' l1 ltac:(lia)) as [r [l' [E Hl]]]. exists r, l'. split; [exact E|lia].
Qed.

Lemma readDSAPrivateKey_total l :
  exists r ok l', readDSAPrivateKey l = Some (r, ok, l') /\ (length l' <= length l)%nat.
Proof.
  unfold readDSAPrivateKey.
  pose proof (expect_len 40 l) as H0. destruct (expect 40 l) as [st l1]. cbn [snd] in H0.
  pose proof (readSymbolAndExpect_len s_dsa l1) as H1. destruct (readSymbolAndExpect s_dsa l1) as [ok1 l2]. cbn [snd] in H1.
  destruct (dsa_loop_total (S (length l2)) nokey l2 ltac:(lia)) as [r [l3 [E H3]]]. rewrite E.
  destruct r as [k|].
  - pose proof (expect_len 41 l3) as H4. destruct (expect 41 l3) as [ok2 l4]. cbn [snd] in H4.
    eexists _, _, _. split; [reflexivity|lia].
  - eexists _, _, _. split; [reflexivity|lia].
Qed.

Lemma readPrivateKey_total l :
  exists k ok l', readPrivateKey l = Some (k, ok, l') /\ (length l' <= length l)%nat.
Proof.
  unfold readPrivateKey.
  pose proof (expect_len 40 l) as H0. destruct (expect 40 l) as [st l1]. cbn [snd] in H0.
  pose proof (readSymbolAndExpect_len s_private_key l1) as H1. destruct (readSymbolAndExpect s_private_key l1) as [ok1 l2]. cbn [snd] in H1.
  destruct (readDSAPrivateKey_total l2) as [r [ok2 [l3 [E H3]]]]. rewrite E.
  pose proof (expect_len 41 l3) as H4. destruct (expect 41 l3) as [ok3 l4]. cbn [snd] in H4.
  eexists _, _, _. split; [reflexivity|lia].
Qed.

Lemma readAccountName_len l : (length (snd (readAccountName l)) <= length l)%nat.
Proof.
  unfold readAccountName.
  pose proof (expect_len 40 l) as H0. destruct (expect 40 l) as [st l1]. cbn [snd] in H0.
  pose proof (readSymbolAndExpect_len s_name l1) as H1. destruct (readSymbolAndExpect s_name l1) as [ok1 l2]. cbn [snd] in H1.
  pose proof (readPotentialStringOrSymbol_len l2) as H2. destruct (readPotentialStringOrSymbol l2) as [[nm ok2] l3]. cbn [snd] in H2.
  pose proof (expect_len 41 l3) as H3. destruct (expect 41 l3) as [ok3 l4]. cbn [snd] in *. lia.
Qed.
Lemma readAccountProtocol_len l : (length (snd (readAccountProtocol l)) <= length l)%nat.
Proof.
  unfold readAccountProtocol.
  pose proof (expect_len 40 l) as H0. destruct (expect 40 l) as [st l1]. cbn [snd] in H0.
  pose proof (readSymbolAndExpect_len s_protocol l1) as H1. destruct (readSymbolAndExpect s_protocol l1) as [ok1 l2]. cbn [snd] in H1.
  pose proof (readPotentialSymbol_len l2) as H2. destruct (readPotentialSymbol l2) as [[nm ok2] l3]. cbn [snd] in H2.
  pose proof (expect_len 41 l3) as H3. destruct (expect 41 l3) as [ok3 l4]. cbn [snd] in *. lia.
Qed.

Lemma readAccount_total l :
  exists a ok atEnd l', readAccount l = Some (a, ok, atEnd, l') /\ (length l' <= length l)%nat /\
                        (atEnd = false -> (length l' < length l)%nat).
Proof.
  unfold readAccount.
  destruct (expect_length 40 l) as [H0 H0']. destruct (expect 40 l) as [st l1]. cbn [fst snd] in *.
  destruct st; cbn [negb].
  2:{ eexists _, _, _, _. split; [reflexivity|]. split; [exact H0|discriminate]. }
  specialize (H0' eq_refl).
  pose proof (readSymbolAndExpect_len s_account l1) as H1. destruct (readSymbolAndExpect s_account l1) as [ok1 l2]. cbn [snd] in H1.
  pose proof (readAccountName_len l2) as H2. destruct (readAccountName l2) as [[nm ok2] l3]. cbn [snd] in H2.
  pose proof (readAccountProtocol_len l3) as H3. destruct (readAccountProtocol l3) as [[pr ok3] l4]. cbn [snd] in H3.
  destruct (readPrivateKey_total l4) as [k [ok4 [l5 [E H5]]]]. rewrite E.
  pose proof (expect_len 41 l5) as H6. destruct (expect 41 l5) as [ok5 l6]. cbn [snd] in H6.
  eexists _, _, _, _. split; [reflexivity|]. split; [lia|intros _; lia].
Qed.

Lemma accounts_loop_total f : forall l, (length l < f)%nat -> accounts_loop f l <> None.
Proof.
  induction f as [|f IH]; intros l Hf; [lia|]. cbn [accounts_loop].
  destruct (readAccount_total l) as [a [ok [atEnd [l1 [E [H1 H2]]]]]]. rewrite E.
  destruct atEnd; [discriminate|]. specialize (H2 eq_refl).
  specialize (IH l1 ltac:(lia)). destruct (accounts_loop f l1) as [[[rest ok2] l2]|]; [discriminate|contradiction].
Qed.

Theorem importKeys_total l : importKeys l <> None.
Proof.
  unfold importKeys, readAccounts.
  destruct (expect 40 l) as [st l1]. destruct (readSymbolAndExpect s_privkeys l1) as [ok1 l2].
  pose proof (accounts_loop_total (S (length l2)) l2 ltac:(lia)) as H.
  destruct (accounts_loop (S (length l2)) l2) as [[[acs ok2] l3]|]; [|contradiction].
  destruct (expect 41 l3) as [ok3 l4]. discriminate.
Qed.

(* ------------------------------------------------------------------ 2. export, then ImportKeys *)
Lemma expect_skip c l r : skip_ws l = c :: r -> expect c l = (true, r).
Proof. intros H. unfold expect. rewrite H, N.eqb_refl. reflexivity. Qed.
Lemma expect_skip_not c d l r : skip_ws l = d :: r -> d <> c -> expect c l = (false, d :: r).
Proof. intros H Hd. unfold expect. rewrite H. destruct (N.eqb_spec d c); [contradiction|reflexivity]. Qed.
Lemma skip_ws_nonws c r : isWhitespace c = false -> skip_ws (c :: r) = c :: r.
Proof. intros H. cbn. rewrite H. reflexivity. Qed.
Definition all_ws (w : bytes) : Prop := Forall (fun c => isWhitespace c = true) w.
Lemma skip_ws_app w l : all_ws w -> skip_ws (w ++ l) = skip_ws l.
Proof. induction 1 as [|c w Hc _ IH]; [reflexivity|]. cbn. rewrite Hc. exact IH. Qed.

Lemma read_until_app stop a b r : Forall (fun c => stop c = false) a -> stop b = true ->
  read_until stop (a ++ b :: r) = (a, b :: r).
Proof.
  intros Ha Hb. induction Ha as [|c a Hc _ IH]; cbn; [rewrite Hb; reflexivity|]. rewrite Hc, IH. reflexivity.
Qed.

(* ReadValue on an item that is not a list does not depend on the fuel *)
Lemma read_value_atom f l c r : skip_ws l = c :: r -> c <> 40 ->
  read_value (S f) l = Some (if c =? 41 then (None, true, c :: r)
                             else if c =? 34 then let '(v, r') := read_string (c :: r) in (v, false, r')
                             else if c =? 35 then let '(v, r') := read_bignum (c :: r) in (v, false, r')
                             else let '(v, r') := read_symbol (c :: r) in (v, false, r')).
Proof.
  intros H Hc. cbn [read_value]. rewrite H. destruct (N.eqb_spec c 40); [contradiction|].
  destruct (c =? 41); [reflexivity|]. destruct (c =? 34); [destruct (read_string _); reflexivity|].
  destruct (c =? 35); [destruct (read_bignum _); reflexivity|]. destruct (read_symbol _); reflexivity.
Qed.
Lemma readValue_atom l c r : skip_ws l = c :: r -> c <> 40 ->
  readValue l = (if c =? 41 then (None, true, c :: r)
                 else if c =? 34 then let '(v, r') := read_string (c :: r) in (v, false, r')
                 else if c =? 35 then let '(v, r') := read_bignum (c :: r) in (v, false, r')
                 else let '(v, r') := read_symbol (c :: r) in (v, false, r')).
Proof.
  intros H Hc. unfold readValue. replace (2 * length l + 4)%nat with (S (2 * length l + 3)) by lia.
  rewrite (read_value_atom _ l c r H Hc). reflexivity.
Qed.

Definition no34 (s : bytes) : Prop := Forall (fun c => (34 =? c) = false) s.
Definition no35 (s : bytes) : Prop := Forall (fun c => (35 =? c) = false) s.
(* a symbol: not empty, made of symbol characters, not starting like a string or a number *)
Definition sym_ok (s : bytes) : Prop :=
  match s with c :: _ => c <> 34 /\ c <> 35 | [] => False end /\ Forall (fun c => isNotSymbolCharacter c = false) s.

Lemma readValue_string l s r : skip_ws l = 34 :: s ++ 34 :: r -> no34 s -> readValue l = (Some (SStr s), false, r).
Proof.
  intros H Hs. rewrite (readValue_atom l 34 _ H) by discriminate. cbn [N.eqb Pos.eqb].
  unfold read_string. rewrite (expect_skip 34 _ (s ++ 34 :: r)) by reflexivity. cbn [negb].
  rewrite (read_until_app (N.eqb 34) s 34 r Hs) by reflexivity.
  rewrite (expect_skip 34 (34 :: r) r) by reflexivity. reflexivity.
Qed.
Lemma readValue_bignum l h r : skip_ws l = 35 :: h ++ 35 :: r -> no35 h -> readValue l = (Some (SNum (parse_hex h)), false, r).
Proof.
  intros H Hs. rewrite (readValue_atom l 35 _ H) by discriminate. cbn [N.eqb Pos.eqb].
  unfold read_bignum. rewrite (expect_skip 35 _ (h ++ 35 :: r)) by reflexivity. cbn [negb].
  rewrite (read_until_app (N.eqb 35) h 35 r Hs) by reflexivity.
  rewrite (expect_skip 35 (35 :: r) r) by reflexivity. reflexivity.
Qed.
Lemma sym_head_nonws s : sym_ok s -> exists c s', s = c :: s' /\ isWhitespace c = false /\ c <> 40 /\ c <> 41 /\ c <> 34 /\ c <> 35.
Proof.
  intros [H1 H2]. destruct s as [|c s']; [contradiction|]. exists c, s'. split; [reflexivity|].
  inversion H2 as [|? ? Hc _]; subst. unfold isNotSymbolCharacter in Hc.
  destruct (isWhitespace c); [discriminate|]. cbn [orb] in Hc.
  destruct (N.eqb_spec c 40); [discriminate|]. destruct (N.eqb_spec c 41); [discriminate|]. tauto.
Qed.
Lemma readValue_symbol l s d r : skip_ws l = s ++ d :: r -> sym_ok s -> isNotSymbolCharacter d = true ->
  readValue l = (Some (SSym s), false, d :: r).
Proof.
  intros H Hs Hd. destruct (sym_head_nonws s Hs) as [c [s' [-> [Hw [H40 [H41 [H34 H35]]]]]]].
  cbn [app] in H. rewrite (readValue_atom l c _ H H40).
  destruct (N.eqb_spec c 41); [contradiction|]. destruct (N.eqb_spec c 34); [contradiction|].
  destruct (N.eqb_spec c 35); [contradiction|].
  unfold read_symbol. rewrite (skip_ws_nonws c _ Hw).
  change (c :: s' ++ d :: r) with ((c :: s') ++ d :: r).
  rewrite (read_until_app isNotSymbolCharacter (c :: s') d r (proj2 Hs) Hd). reflexivity.
Qed.

Lemma bytes_eqb_refl s : bytes_eqb s s = true.
Proof. induction s as [|c s IH]; [reflexivity|]. cbn. rewrite N.eqb_refl. exact IH. Qed.

Lemma readSymbolAndExpect_ok l s d r : skip_ws l = s ++ d :: r -> sym_ok s -> isNotSymbolCharacter d = true ->
  readSymbolAndExpect s l = (true, d :: r).
Proof.
  intros H Hs Hd. unfold readSymbolAndExpect, readPotentialSymbol. rewrite (readValue_symbol l s d r H Hs Hd).
  rewrite bytes_eqb_refl. reflexivity.
Qed.

(* ---- numbers ---- *)
Lemma hex_val_digitU d : d < 16 -> hex_val (digit_charU d) = Some d.
Proof.
  intros H. unfold hex_val, digit_charU. destruct (N.ltb_spec d 10).
  - destruct (N.leb_spec 48 (48 + d)); [|lia]. destruct (N.leb_spec (48 + d) 57); [|lia].
    cbn [andb]. f_equal. lia.
  - destruct (N.leb_spec 48 (55 + d)); [|lia]. destruct (N.leb_spec (55 + d) 57); [lia|].
    cbn [andb]. destruct (N.leb_spec 97 (55 + d)); [lia|]. cbn [andb].
    destruct (N.leb_spec 65 (55 + d)); [|lia]. destruct (N.leb_spec (55 + d) 70); [|lia].
    cbn [andb]. f_equal. lia.
Qed.
Lemma hexval_same c : hexval c = hex_val c.
Proof. reflexivity. Qed.
Lemma hex_acc_same acc l : hex_acc acc l = parse_digits hex_val 16 acc l.
Proof. revert acc. induction l as [|c l IH]; intros acc; [reflexivity|]. cbn. rewrite hexval_same. destruct (hex_val c); [apply IH|reflexivity]. Qed.
Lemma parse_digits_mapU acc ds : Forall (fun d => d < 16) ds ->
  parse_digits hex_val 16 acc (map digit_charU ds) = Some (horner 16 acc ds).
Proof.
  revert acc; induction ds as [|d ds IH]; intros acc F; [reflexivity|].
  inversion F; subst. cbn [map parse_digits]. rewrite hex_val_digitU by assumption. apply IH; assumption.
Qed.
Lemma parse_fmt_X acc m : parse_digits hex_val 16 acc (fmt_X m) = Some (acc * 16 ^ lenN (digits 16 m) + m).
Proof.
  unfold fmt_X. rewrite parse_digits_mapU by (apply digits_range; lia).
  rewrite horner_shift, digits_val by lia. reflexivity.
Qed.
Lemma digit_charU_class d : d < 16 -> let c := digit_charU d in
  c <> 43 /\ c <> 45 /\ c <> 35 /\ c <> 32 /\ notHex c = false.
Proof.
  intros H c. unfold notHex. subst c. rewrite hex_val_digitU by exact H. unfold digit_charU. destruct (d <? 10) eqn:E; lia.
Qed.
Lemma fmt_X_chars m : Forall (fun c => c <> 43 /\ c <> 45 /\ c <> 35 /\ c <> 32 /\ notHex c = false) (fmt_X m).
Proof.
  unfold fmt_X. apply Forall_map. eapply Forall_impl; [|apply (digits_range 16 m); lia].
  intros d Hd. apply (digit_charU_class d Hd).
Qed.
Lemma fmt_X_cons m : exists c r, fmt_X m = c :: r.
Proof.
  unfold fmt_X. pose proof (digits_nonempty 16 m) as H. destruct (digits 16 m) as [|d r]; [contradiction|].
  eexists _, _. reflexivity.
Qed.

(* a number as export can meet it: nil, or a sign that is only set for a non-zero magnitude (big.Int has no -0) *)
Definition big_ok (v : bigint) : Prop := match v with Some (neg, m) => neg = true -> m <> 0 | None => True end.

Lemma parse_hex_unsigned c r : c <> 43 -> c <> 45 ->
  parse_hex (c :: r) = match hex_acc 0 (c :: r) with Some v => Some (false, v) | None => None end.
Proof.
  intros H43 H45. unfold parse_hex. destruct c as [|p]; [reflexivity|].
  do 6 (destruct p as [p|p|]; try reflexivity); exfalso; try (apply H45; reflexivity); try (apply H43; reflexivity).
Qed.
Lemma parse_hexnum v : big_ok v -> parse_hex (hexnum v) = v.
Proof.
  destruct v as [[neg m]|]; [|reflexivity]. intros Hv. cbn [hexnum big_ok] in *.
  destruct (fmt_X_cons m) as [c [r E]].
  pose proof (fmt_X_chars m) as Hc. rewrite E in Hc. inversion Hc as [|? ? [H43 [H45 _]] _]; subst.
  pose proof (parse_fmt_X 0 m) as Hp. rewrite N.mul_0_l, N.add_0_l in Hp.
  destruct neg; cbn [app].
  - unfold parse_hex. rewrite E, hex_acc_same, <- E, Hp.
    destruct (N.eqb_spec m 0) as [Z|Z]; [exfalso; exact (Hv eq_refl Z)|]. reflexivity.
  - rewrite E, (parse_hex_unsigned c r H43 H45), hex_acc_same, <- E, Hp. reflexivity.
Qed.
Lemma hexnum_no35 v : no35 (hexnum v).
Proof.
  destruct v as [[neg m]|]; [|repeat constructor].
  cbn [hexnum]. apply Forall_app. split; [destruct neg; repeat constructor|].
  eapply Forall_impl; [|apply fmt_X_chars]. cbn. intros c [_ [_ [H _]]]. destruct (N.eqb_spec 35 c); [congruence|reflexivity].
Qed.

(* ---- the structure ---- *)
Ltac sym_lit := split; [split; discriminate | repeat constructor].
Ltac norm_app := repeat (rewrite <- app_assoc; cbn [app]).

Lemma sym1_nonws nm : sym_ok [nm] -> isWhitespace nm = false.
Proof. intros H. destruct (sym_head_nonws _ H) as [c [s' [E [Hw _]]]]. injection E as -> _. exact Hw. Qed.

Lemma readParameter_ok l nm v rest :
  skip_ws l = 40 :: nm :: 32 :: 35 :: hexnum v ++ 35 :: 41 :: rest -> sym_ok [nm] ->
  readParameter l = ([nm], parse_hex (hexnum v), false, true, rest).
Proof.
  intros H Hn. unfold readParameter. rewrite (expect_skip 40 l _ H). cbn [negb].
  unfold readPotentialSymbol.
  rewrite (readValue_symbol _ [nm] 32 (35 :: hexnum v ++ 35 :: 41 :: rest)); [|apply skip_ws_nonws, sym1_nonws, Hn|exact Hn|reflexivity].
  unfold readPotentialBigNum.
  rewrite (readValue_bignum _ (hexnum v) (41 :: rest)); [|reflexivity|apply hexnum_no35].
  rewrite (expect_skip 41 (41 :: rest) rest) by reflexivity. reflexivity.
Qed.
Lemma readParameter_end l r : skip_ws l = 41 :: r -> readParameter l = ([], None, true, true, 41 :: r).
Proof. intros H. unfold readParameter. rewrite (expect_skip_not 40 41 l r H) by discriminate. reflexivity. Qed.

Lemma exportParameter_app nm v more :
  exportParameter nm v ++ more = ind8 ++ 40 :: nm :: 32 :: 35 :: hexnum v ++ 35 :: 41 :: 10 :: more.
Proof. unfold exportParameter, ind8, nl. norm_app. reflexivity. Qed.

Lemma param_step w nm v more : all_ws w -> sym_ok [nm] ->
  readParameter (w ++ exportParameter nm v ++ more) = ([nm], parse_hex (hexnum v), false, true, [10] ++ more).
Proof.
  intros Hw Hn. apply readParameter_ok; [|exact Hn]. rewrite exportParameter_app, skip_ws_app by exact Hw. reflexivity.
Qed.

Lemma dsa_loop_mono f : forall k l r, dsa_loop f k l = Some r -> forall f', (f <= f')%nat -> dsa_loop f' k l = Some r.
Proof.
  induction f as [|f IH]; intros k l r H f' Hf; [discriminate|]. destruct f' as [|f']; [lia|].
  cbn [dsa_loop] in *. destruct (readParameter l) as [[[[tag v] en] ok] l1].
  destruct (negb ok); [exact H|]. destruct en; [exact H|].
  destruct (assignParameter k tag v) as [k'|]; [|exact H]. apply (IH _ _ _ H). lia.
Qed.
Lemma dsa_loop_det f f' k l r r' : dsa_loop f k l = Some r -> dsa_loop f' k l = Some r' -> r = r'.
Proof.
  intros H H'. pose proof (dsa_loop_mono f k l r H (max f f') ltac:(lia)) as A.
  pose proof (dsa_loop_mono f' k l r' H' (max f f') ltac:(lia)) as B. congruence.
Qed.

Definition key_ok (k : dsapriv) : Prop := big_ok (dP k) /\ big_ok (dQ k) /\ big_ok (dG k) /\ big_ok (dY k) /\ big_ok (dX k).

Lemma all_ws_nl : all_ws [10].
Proof. repeat constructor. Qed.

Lemma dsa_loop_export k rest : key_ok k ->
  dsa_loop 6 nokey ([10] ++ exportParameter 112 (dP k) ++ exportParameter 113 (dQ k) ++ exportParameter 103 (dG k) ++
                    exportParameter 121 (dY k) ++ exportParameter 120 (dX k) ++ ind6 ++ 41 :: rest)
  = Some (Some k, 41 :: rest).
Proof.
  intros [HP [HQ [HG [HY HX]]]].
  cbn [dsa_loop]. rewrite (param_step [10] 112) by (apply all_ws_nl || sym_lit). cbn [negb assignParameter nokey dP dQ dG dY dX].
  rewrite (param_step [10] 113) by (apply all_ws_nl || sym_lit). cbn [negb assignParameter nokey dP dQ dG dY dX].
  rewrite (param_step [10] 103) by (apply all_ws_nl || sym_lit). cbn [negb assignParameter nokey dP dQ dG dY dX].
  rewrite (param_step [10] 121) by (apply all_ws_nl || sym_lit). cbn [negb assignParameter nokey dP dQ dG dY dX].
  rewrite (param_step [10] 120) by (apply all_ws_nl || sym_lit). cbn [negb assignParameter nokey dP dQ dG dY dX].
  rewrite (readParameter_end _ rest) by reflexivity. cbn [negb].
  rewrite !parse_hexnum by assumption. destruct k; reflexivity.
Qed.

Lemma exportDSA_app k rest :
  exportDSAPrivateKey k ++ rest =
  ind6 ++ 40 :: s_dsa ++ [10] ++ exportParameter 112 (dP k) ++ exportParameter 113 (dQ k) ++ exportParameter 103 (dG k) ++
                    exportParameter 121 (dY k) ++ exportParameter 120 (dX k) ++ ind6 ++ 41 :: 10 :: rest.
Proof. unfold exportDSAPrivateKey, ind6, s_dsa, nl. norm_app. reflexivity. Qed.

Lemma readDSAPrivateKey_export w k rest : all_ws w -> key_ok k ->
  readDSAPrivateKey (w ++ exportDSAPrivateKey k ++ rest) = Some (Some k, true, 10 :: rest).
Proof.
  intros Hw Hk. unfold readDSAPrivateKey. rewrite exportDSA_app.
  rewrite (expect_skip 40 _ (s_dsa ++ [10] ++ exportParameter 112 (dP k) ++ exportParameter 113 (dQ k) ++ exportParameter 103 (dG k) ++
                    exportParameter 121 (dY k) ++ exportParameter 120 (dX k) ++ ind6 ++ 41 :: 10 :: rest))
    by (rewrite skip_ws_app by exact Hw; reflexivity).
  rewrite (readSymbolAndExpect_ok _ s_dsa 10 (exportParameter 112 (dP k) ++ exportParameter 113 (dQ k) ++ exportParameter 103 (dG k) ++
                    exportParameter 121 (dY k) ++ exportParameter 120 (dX k) ++ ind6 ++ 41 :: 10 :: rest)); [|reflexivity|sym_lit|reflexivity].
  match goal with |- context [dsa_loop ?f nokey ?l] =>
    destruct (dsa_loop_total f nokey l ltac:(lia)) as [r [l' [E _]]]; rewrite E;
    pose proof (dsa_loop_det _ _ _ _ _ _ (dsa_loop_export k (10 :: rest) Hk) E) as D end.
  injection D as <- <-.
  rewrite (expect_skip 41 (41 :: 10 :: rest) (10 :: rest)) by reflexivity. reflexivity.
Qed.

Lemma exportPrivateKey_app k rest :
  exportPrivateKey k ++ rest = ind4 ++ 40 :: s_private_key ++ [10] ++ exportDSAPrivateKey k ++ ind4 ++ 41 :: 10 :: rest.
Proof. unfold exportPrivateKey, ind4, s_private_key, nl. norm_app. reflexivity. Qed.

Lemma readPrivateKey_export w k rest : all_ws w -> key_ok k ->
  readPrivateKey (w ++ exportPrivateKey k ++ rest) = Some (k, true, 10 :: rest).
Proof.
  intros Hw Hk. unfold readPrivateKey. rewrite exportPrivateKey_app.
  rewrite (expect_skip 40 _ (s_private_key ++ [10] ++ exportDSAPrivateKey k ++ ind4 ++ 41 :: 10 :: rest))
    by (rewrite skip_ws_app by exact Hw; reflexivity).
  rewrite (readSymbolAndExpect_ok _ s_private_key 10 (exportDSAPrivateKey k ++ ind4 ++ 41 :: 10 :: rest)); [|reflexivity|sym_lit|reflexivity].
  change (10 :: exportDSAPrivateKey k ++ ind4 ++ 41 :: 10 :: rest) with ([10] ++ exportDSAPrivateKey k ++ ind4 ++ 41 :: 10 :: rest).
  rewrite (readDSAPrivateKey_export [10] k _ all_ws_nl Hk).
  rewrite (expect_skip 41 _ (10 :: rest)) by reflexivity. reflexivity.
Qed.

Lemma exportName_app n rest :
  exportName n ++ rest = ind4 ++ 40 :: s_name ++ 32 :: 34 :: n ++ 34 :: 41 :: 10 :: rest.
Proof. unfold exportName, ind4, s_name, nl. norm_app. reflexivity. Qed.
Lemma readAccountName_export w n rest : all_ws w -> no34 n ->
  readAccountName (w ++ exportName n ++ rest) = (n, true, 10 :: rest).
Proof.
  intros Hw Hn. unfold readAccountName. rewrite exportName_app.
  rewrite (expect_skip 40 _ (s_name ++ 32 :: 34 :: n ++ 34 :: 41 :: 10 :: rest)) by (rewrite skip_ws_app by exact Hw; reflexivity).
  rewrite (readSymbolAndExpect_ok _ s_name 32 (34 :: n ++ 34 :: 41 :: 10 :: rest)); [|reflexivity|sym_lit|reflexivity].
  unfold readPotentialStringOrSymbol.
  rewrite (readValue_string _ n (41 :: 10 :: rest)); [|reflexivity|exact Hn].
  rewrite (expect_skip 41 _ (10 :: rest)) by reflexivity. reflexivity.
Qed.

Lemma exportProtocol_app n rest :
  exportProtocol n ++ rest = ind4 ++ 40 :: s_protocol ++ 32 :: n ++ 41 :: 10 :: rest.
Proof. unfold exportProtocol, ind4, s_protocol, nl. norm_app. reflexivity. Qed.
Lemma readAccountProtocol_export w n rest : all_ws w -> sym_ok n ->
  readAccountProtocol (w ++ exportProtocol n ++ rest) = (n, true, 10 :: rest).
Proof.
  intros Hw Hn. unfold readAccountProtocol. rewrite exportProtocol_app.
  rewrite (expect_skip 40 _ (s_protocol ++ 32 :: n ++ 41 :: 10 :: rest)) by (rewrite skip_ws_app by exact Hw; reflexivity).
  rewrite (readSymbolAndExpect_ok _ s_protocol 32 (n ++ 41 :: 10 :: rest)); [|reflexivity|sym_lit|reflexivity].
  unfold readPotentialSymbol.
  rewrite (readValue_symbol _ n 41 (10 :: rest)); [| |exact Hn|reflexivity].
  - rewrite (expect_skip 41 _ (10 :: rest)) by reflexivity. reflexivity.
  - destruct (sym_head_nonws n Hn) as [c [s' [-> [Hc _]]]]. cbn [app].
    change (skip_ws (32 :: c :: s' ++ 41 :: 10 :: rest)) with (skip_ws (c :: s' ++ 41 :: 10 :: rest)).
    apply skip_ws_nonws, Hc.
Qed.

Definition acct_ok (a : account) : Prop := no34 (aName a) /\ sym_ok (aProto a) /\ key_ok (aKey a).

Lemma exportAccount_app a rest :
  exportAccount a ++ rest =
  ind2 ++ 40 :: s_account ++ [10] ++ exportName (aName a) ++ exportProtocol (aProto a) ++ exportPrivateKey (aKey a) ++ ind2 ++ 41 :: 10 :: rest.
Proof. unfold exportAccount, ind2, s_account, nl. norm_app. reflexivity. Qed.

Lemma readAccount_export w a rest : all_ws w -> acct_ok a ->
  readAccount (w ++ exportAccount a ++ rest) = Some (a, true, false, [10] ++ rest).
Proof.
  intros Hw [Hn [Hp Hk]]. unfold readAccount. rewrite exportAccount_app.
  rewrite (expect_skip 40 _ (s_account ++ [10] ++ exportName (aName a) ++ exportProtocol (aProto a) ++ exportPrivateKey (aKey a) ++ ind2 ++ 41 :: 10 :: rest))
    by (rewrite skip_ws_app by exact Hw; reflexivity).
  cbn [negb].
  rewrite (readSymbolAndExpect_ok _ s_account 10 (exportName (aName a) ++ exportProtocol (aProto a) ++ exportPrivateKey (aKey a) ++ ind2 ++ 41 :: 10 :: rest)); [|reflexivity|sym_lit|reflexivity].
  change (10 :: exportName (aName a) ++ ?x) with ([10] ++ exportName (aName a) ++ x).
  rewrite (readAccountName_export [10] _ _ all_ws_nl Hn).
  change (10 :: exportProtocol (aProto a) ++ ?x) with ([10] ++ exportProtocol (aProto a) ++ x).
  rewrite (readAccountProtocol_export [10] _ _ all_ws_nl Hp).
  change (10 :: exportPrivateKey (aKey a) ++ ?x) with ([10] ++ exportPrivateKey (aKey a) ++ x).
  rewrite (readPrivateKey_export [10] _ _ all_ws_nl Hk).
  rewrite (expect_skip 41 _ (10 :: rest)) by reflexivity. destruct a; reflexivity.
Qed.

Lemma accounts_loop_mono f : forall l r, accounts_loop f l = Some r -> forall f', (f <= f')%nat -> accounts_loop f' l = Some r.
Proof.
  induction f as [|f IH]; intros l r H f' Hf; [discriminate|]. destruct f' as [|f']; [lia|].
  cbn [accounts_loop] in *. destruct (readAccount l) as [[[[a ok] atEnd] l1]|]; [|discriminate].
  destruct atEnd; [exact H|].
  destruct (accounts_loop f l1) as [[[rest ok2] l2]|] eqn:E; [|discriminate].
  rewrite (IH _ _ E f') by lia. exact H.
Qed.

Lemma accounts_loop_S f l : accounts_loop (S f) l =
  match readAccount l with
  | None => None
  | Some (a, ok, atEnd, l1) =>
      if atEnd then Some ([], ok, l1)
      else match accounts_loop f l1 with
           | Some (rest, ok2, l2) => Some (a :: rest, ok && ok2, l2)
           | None => None
           end
  end.
Proof. reflexivity. Qed.

Lemma accounts_loop_export acs : forall w rest, all_ws w -> Forall acct_ok acs ->
  accounts_loop (S (length acs)) (w ++ concat (map exportAccount acs) ++ 41 :: rest) = Some (acs, true, 41 :: rest).
Proof.
  induction acs as [|a acs IH]; intros w rest Hw Ha.
  - cbn [length map concat app]. rewrite accounts_loop_S. unfold readAccount.
    rewrite (expect_skip_not 40 41 _ rest) by (rewrite ?skip_ws_app by exact Hw; reflexivity || discriminate).
    reflexivity.
  - inversion Ha as [|? ? Ha1 Ha2]; subst.
    cbn [length map concat]. rewrite <- app_assoc. rewrite accounts_loop_S.
    rewrite (readAccount_export w a _ Hw Ha1).
    rewrite (IH [10] rest all_ws_nl Ha2). reflexivity.
Qed.

Theorem importKeys_exportAccounts acs : Forall acct_ok acs -> importKeys (exportAccounts acs) = Some (Some acs).
Proof.
  intros Ha. unfold importKeys, readAccounts, exportAccounts.
  rewrite (expect_skip 40 _ (s_privkeys ++ nl ++ concat (map exportAccount acs) ++ 41 :: nl)) by reflexivity.
  rewrite (readSymbolAndExpect_ok _ s_privkeys 10 (concat (map exportAccount acs) ++ 41 :: nl)); [|reflexivity|sym_lit|reflexivity].
  pose proof (accounts_loop_export acs [10] nl all_ws_nl Ha) as E. cbn [app] in E.
  match goal with |- context [accounts_loop ?f ?l] =>
    pose proof (accounts_loop_total f l ltac:(lia)) as T;
    destruct (accounts_loop f l) as [r|] eqn:E2; [|contradiction] end.
  pose proof (accounts_loop_mono _ _ _ E (max (S (length acs)) (S (length (10 :: concat (map exportAccount acs) ++ 41 :: nl)))) ltac:(lia)) as A.
  pose proof (accounts_loop_mono _ _ _ E2 (max (S (length acs)) (S (length (10 :: concat (map exportAccount acs) ++ 41 :: nl)))) ltac:(lia)) as B.
  rewrite A in B. injection B as <-.
  rewrite (expect_skip 41 _ nl) by reflexivity. reflexivity.
Qed.

(* ------------------------------------------------------------------ 3. export, then DSAPrivateKey.Import *)
(* no blank directly followed by a number sign *)
Fixpoint no_shb (a : bytes) : bool :=
  match a with [] => true | c :: r => negb (is_prefix [32; 35] a) && no_shb r end.

Lemma is_prefix_sh_app c a r : is_prefix [32; 35] (c :: a) = false -> is_prefix [32; 35] ((c :: a) ++ 32 :: 35 :: r) = false.
Proof.
  cbn [is_prefix app]. destruct (32 =? c); cbn [andb]; [|reflexivity].
  destruct a as [|x a]; cbn [app]; [reflexivity|]. destruct (35 =? x); cbn [andb]; [discriminate|reflexivity].
Qed.

Lemma index_from_sh a r : forall f i, no_shb a = true -> (length a <= f)%nat ->
  index_from f [32; 35] (a ++ 32 :: 35 :: r) i = Some (i + length a)%nat.
Proof.
  induction a as [|c a IH]; intros f i Ha Hf.
  - cbn [app length]. rewrite Nat.add_0_r. destruct f; reflexivity.
  - cbn [no_shb] in Ha. apply andb_prop in Ha. destruct Ha as [H1 H2]. apply negb_true_iff in H1.
    destruct f as [|f]; [cbn in Hf; lia|].
    cbn [index_from]. rewrite (is_prefix_sh_app c a r H1). cbn [app].
    rewrite (IH f (S i) H2) by (cbn in Hf; lia). f_equal. cbn [length]. lia.
Qed.
Lemma index_sh a r : no_shb a = true -> index (a ++ 32 :: 35 :: r) [32; 35] = Some (length a).
Proof. intros H. unfold index. rewrite index_from_sh by (rewrite ?app_length; auto; lia). reflexivity. Qed.

Lemma no35_no_shb a : no35 a -> no_shb a = true.
Proof.
  induction 1 as [|c a Hc Ht IH]; [reflexivity|]. cbn [no_shb]. rewrite IH, andb_true_r.
  cbn [is_prefix]. destruct (32 =? c); cbn [andb]; [|reflexivity]. destruct a as [|x a]; [reflexivity|].
  inversion Ht as [|? ? Hx _]; subst. rewrite Hx. reflexivity.
Qed.

Lemma span_hex_app h c r : Forall (fun x => notHex x = false) h -> notHex c = true -> span_hex (h ++ c :: r) = Some (h, c :: r).
Proof.
  intros Hh Hc. induction Hh as [|x h Hx _ IH]; cbn [app span_hex]; [rewrite Hc; reflexivity|]. rewrite Hx, IH. reflexivity.
Qed.

Lemma hex_value_fmt_X m : hex_value (fmt_X m) = m /\ hex_value (48 :: fmt_X m) = m.
Proof.
  unfold hex_value. split.
  - rewrite parse_fmt_X. lia.
  - change (parse_digits hex_val 16 0 (48 :: fmt_X m)) with (parse_digits hex_val 16 (0 * 16 + 0) (fmt_X m)).
    rewrite parse_fmt_X. lia.
Qed.

(* the round of Import that reads one number: after a stretch without " #", the number as export writes it *)
Lemma import_num_export a m rest : no_shb a = true ->
  import_num (a ++ 32 :: 35 :: fmt_X m ++ 35 :: rest) = Some (m, 35 :: rest).
Proof.
  intros Ha. unfold import_num. rewrite (index_sh a _ Ha).
  replace (skipn (length a + 2) (a ++ 32 :: 35 :: fmt_X m ++ 35 :: rest)) with (fmt_X m ++ 35 :: rest).
  2:{ replace (length a + 2)%nat with (length (a ++ [32; 35])) by (rewrite app_length; reflexivity).
      change (a ++ 32 :: 35 :: fmt_X m ++ 35 :: rest) with (a ++ [32; 35] ++ fmt_X m ++ 35 :: rest).
      rewrite app_assoc, skipn_app, skipn_all, Nat.sub_diag. reflexivity. }
  rewrite (span_hex_app (fmt_X m) 35 rest); [| |reflexivity].
  2:{ eapply Forall_impl; [|apply fmt_X_chars]. cbn. intros c H. apply H. }
  destruct (hex_value_fmt_X m) as [E1 E2]. destruct (Nat.odd (length (fmt_X m))); [rewrite E2|rewrite E1]; reflexivity.
Qed.

(* a key as DSA keys are: five numbers, none nil or negative *)
Definition plain_big (v : bigint) (m : N) : Prop := v = Some (false, m).

Lemma exportParameter_plain nm m more :
  exportParameter nm (Some (false, m)) ++ more = (ind8 ++ [40; nm]) ++ 32 :: 35 :: fmt_X m ++ 35 :: 41 :: 10 :: more.
Proof. rewrite exportParameter_app. cbn [hexnum app]. unfold ind8. reflexivity. Qed.

Theorem import_priv_export a rest p q g y x :
  no35 (aName a) -> no35 (aProto a) ->
  aKey a = {| dP := Some (false, p); dQ := Some (false, q); dG := Some (false, g); dY := Some (false, y); dX := Some (false, x) |} ->
  import_priv (exportAccounts (a :: rest)) = Some [p; q; g; y; x].
Proof.
  intros Hn Hp Hk. unfold import_priv, exportAccounts. cbn [map concat].
  rewrite exportAccount_app, exportName_app, exportProtocol_app, exportPrivateKey_app, exportDSA_app, Hk.
  cbn [dP dQ dG dY dX]. rewrite !exportParameter_plain.
  set (tail := ind6 ++ 41 :: 10 :: ind4 ++ 41 :: 10 :: ind2 ++ 41 :: 10 :: concat (map exportAccount rest) ++ 41 :: nl).
  (* the stretch before the first number contains no number sign at all *)
  match goal with |- import_nums 5 ?l = _ =>
    replace l with ((40 :: s_privkeys ++ nl ++ ind2 ++ 40 :: s_account ++ [10] ++ ind4 ++ 40 :: s_name ++ 32 :: 34 :: aName a ++ 34 :: 41 :: 10 ::
                     ind4 ++ 40 :: s_protocol ++ 32 :: aProto a ++ 41 :: 10 :: ind4 ++ 40 :: s_private_key ++ [10] ++ ind6 ++ 40 :: s_dsa ++ [10] ++ ind8 ++ [40; 112])
                    ++ 32 :: 35 :: fmt_X p ++ 35 :: (41 :: 10 :: ind8 ++ [40; 113]) ++ 32 :: 35 :: fmt_X q ++ 35 :: (41 :: 10 :: ind8 ++ [40; 103]) ++
                       32 :: 35 :: fmt_X g ++ 35 :: (41 :: 10 :: ind8 ++ [40; 121]) ++ 32 :: 35 :: fmt_X y ++ 35 :: (41 :: 10 :: ind8 ++ [40; 120]) ++
                       32 :: 35 :: fmt_X x ++ 35 :: 41 :: 10 :: tail)
  end.
  2:{ unfold s_privkeys, nl, ind2, s_account, ind4, s_name, s_protocol, s_private_key, ind6, s_dsa, ind8. cbn [app]. norm_app. reflexivity. }
  cbn [import_nums].
  rewrite import_num_export.
  2:{ apply no35_no_shb. unfold s_privkeys, nl, ind2, s_account, ind4, s_name, s_protocol, s_private_key, ind6, s_dsa, ind8. cbn [app].
      repeat (first [apply Forall_cons; [reflexivity|] | apply Forall_app; split; [assumption|] | apply Forall_nil]). }
  change (35 :: (41 :: 10 :: ind8 ++ [40; 113]) ++ ?r) with ((35 :: 41 :: 10 :: ind8 ++ [40; 113]) ++ r).
  rewrite import_num_export by reflexivity.
  change (35 :: (41 :: 10 :: ind8 ++ [40; 103]) ++ ?r) with ((35 :: 41 :: 10 :: ind8 ++ [40; 103]) ++ r).
  rewrite import_num_export by reflexivity.
  change (35 :: (41 :: 10 :: ind8 ++ [40; 121]) ++ ?r) with ((35 :: 41 :: 10 :: ind8 ++ [40; 121]) ++ r).
  rewrite import_num_export by reflexivity.
  change (35 :: (41 :: 10 :: ind8 ++ [40; 120]) ++ ?r) with ((35 :: 41 :: 10 :: ind8 ++ [40; 120]) ++ r).
  rewrite import_num_export by reflexivity.
  reflexivity.
Qed.

(* the hypotheses are met by a concrete account (names may contain blanks, parentheses, number signs...) *)
Definition ex_key : dsapriv :=
  {| dP := Some (false, 4095); dQ := Some (false, 0); dG := Some (false, 16); dY := Some (false, 7); dX := Some (false, 2748) |}.
Definition ex_account : account := {| aName := [97; 32; 40; 98; 41; 64; 99]; aProto := [120; 109; 112; 112]; aKey := ex_key |}.
Lemma ex_account_ok : Forall acct_ok [ex_account].
Proof.
  repeat constructor; try discriminate.
Qed.
