(* Mirrors of the strconv / fmt / bytes library calls the code relies on:
   strconv.Atoi, strconv.ParseInt(s,16,0), fmt %05d, %08x, %X, bytes.Split, bytes.Index. *)
From OTR Require Import Go.Base.
Open Scope N_scope.

(* ---- decimal / hex formatting ---- *)
Definition digit_char (d : N) : N := if d <? 10 then 48 + d else 87 + d.       (* lower-case hex *)
Definition digit_charU (d : N) : N := if d <? 10 then 48 + d else 55 + d.      (* upper-case hex *)

Fixpoint digits_fuel (fuel : nat) (base n : N) (acc : list N) : list N :=
  match fuel with
  | O => acc
  | S f => if n <? base then n :: acc else digits_fuel f base (n / base) (n mod base :: acc)
  end.
(* most significant first; [0] for 0 *)
Definition digits (base n : N) : list N := digits_fuel (S (N.to_nat (N.log2 n))) base n [].

Definition pad_left (w : nat) (c : N) (b : bytes) : bytes := repeat c (w - length b) ++ b.
Definition fmt_d (w : nat) (n : N) : bytes := pad_left w 48 (map digit_char (digits 10 n)).     (* %0wd *)
Definition fmt_x (w : nat) (n : N) : bytes := pad_left w 48 (map digit_char (digits 16 n)).     (* %0wx *)
Definition fmt_X (n : N) : bytes := map digit_charU (digits 16 n).                              (* %X of a non-negative big.Int *)

(* ---- parsing ---- *)
Definition dec_val (c : N) : option N := if (48 <=? c) && (c <=? 57) then Some (c - 48) else None.
Definition hex_val (c : N) : option N :=
  if (48 <=? c) && (c <=? 57) then Some (c - 48)
  else if (97 <=? c) && (c <=? 102) then Some (c - 87)
  else if (65 <=? c) && (c <=? 70) then Some (c - 55)
  else None.

Fixpoint parse_digits (dv : N -> option N) (base : N) (acc : N) (b : bytes) : option N :=
  match b with
  | [] => Some acc
  | c :: r => match dv c with Some d => parse_digits dv base (acc * base + d) r | None => None end
  end.

(* signed integer syntax shared by Atoi and ParseInt: optional sign, at least one digit.
   Result as (negative?, magnitude). *)
Definition parse_signed (dv : N -> option N) (base : N) (b : bytes) : option (bool * N) :=
  let '(neg, r) := match b with
                   | c :: r => if c =? 43 then (false, r) else if c =? 45 then (true, r) else (false, b)
                   | [] => (false, b)
                   end in
  match r with
  | [] => None
  | _ => match parse_digits dv base 0 r with Some m => Some (neg, m) | None => None end
  end.

Definition int64_max : N := 9223372036854775807.
Definition in_int64 (neg : bool) (m : N) : bool := if neg then m <=? int64_max + 1 else m <=? int64_max.

(* bytesToUint16 after the repair: Atoi, then 0..65535 or error *)
Definition bytesToUint16 (b : bytes) : option N :=
  match parse_signed dec_val 10 b with
  | Some (neg, m) =>
      if negb (in_int64 neg m) then None
      else if neg then (if m =? 0 then Some 0 else None)
      else if m <=? 65535 then Some m else None
  | None => None
  end.

(* parseItag: strconv.ParseInt(s, 16, 0) then uint32(v) — the conversion wraps *)
Definition parseItag (b : bytes) : option N :=
  match parse_signed hex_val 16 b with
  | Some (neg, m) =>
      if negb (in_int64 neg m) then None
      else if neg then Some ((4294967296 - m mod 4294967296) mod 4294967296)
      else Some (m mod 4294967296)
  | None => None
  end.

(* ---- bytes.Split on a single-byte separator ---- *)
Fixpoint split_on (sep : N) (b : bytes) (cur : bytes) : list bytes :=
  match b with
  | [] => [rev cur]
  | c :: r => if c =? sep then rev cur :: split_on sep r [] else split_on sep r (c :: cur)
  end.
Definition split (sep : N) (b : bytes) : list bytes := split_on sep b [].

(* ---- bytes.Index ---- *)
Fixpoint index_from (fuel : nat) (pat s : bytes) (i : nat) : option nat :=
  if is_prefix pat s then Some i
  else match s, fuel with
       | _ :: r, S f => index_from f pat r (S i)
       | _, _ => None
       end.
Definition index (s pat : bytes) : option nat := index_from (length s) pat s 0.
Definition contains (s pat : bytes) : bool := match index s pat with Some _ => true | None => false end.
