(* The s-expression reader terminates on every input and never consumes nothing for an item: with 2*|input|+1 rounds
   of fuel the mirror always returns (no input makes the reader loop), and extra fuel does not change the result. *)
From OTR Require Import Go.Base Bytes.Sexp.
Open Scope N_scope.

Lemma skip_ws_length l : (length (skip_ws l) <= length l)%nat.
Proof. induction l as [|c r IH]; cbn; [lia|]. destruct (isWhitespace c); cbn; lia. Qed.

Lemma expect_length c l : (length (snd (expect c l)) <= length l)%nat /\
  (fst (expect c l) = true -> (length (snd (expect c l)) < length l)%nat).
Proof.
  unfold expect. pose proof (skip_ws_length l) as H. destruct (skip_ws l) as [|x r]; cbn in *; [split; [lia|discriminate]|].
  destruct (x =? c); cbn; split; try lia; discriminate.
Qed.

Lemma read_until_length stop l : (length (snd (read_until stop l)) <= length l)%nat.
Proof.
  induction l as [|c r IH]; cbn; [lia|]. destruct (stop c); cbn; [lia|].
  destruct (read_until stop r) as [d rest]. cbn in *. lia.
Qed.
Lemma read_until_progress stop c r : stop c = false -> (length (snd (read_until stop (c :: r))) < length (c :: r))%nat.
Proof.
  intros H. cbn. rewrite H. pose proof (read_until_length stop r). destruct (read_until stop r). cbn in *. lia.
Qed.

Lemma expect_head c r : isWhitespace c = false -> expect c (c :: r) = (true, r).
Proof. intros H. unfold expect. cbn. rewrite H, N.eqb_refl. reflexivity. Qed.

Lemma read_string_progress r : (length (snd (read_string (34%N :: r))) < length (34%N :: r))%nat.
Proof.
  unfold read_string. rewrite expect_head by reflexivity. cbn [negb].
  pose proof (read_until_length (N.eqb 34) r) as H1. destruct (read_until (N.eqb 34) r) as [d l2]. cbn [snd] in H1.
  destruct (expect_length 34 l2) as [H2 _]. destruct (expect 34 l2) as [ok2 l3]. cbn [snd] in *.
  destruct ok2; cbn; lia.
Qed.
Lemma read_bignum_progress r : (length (snd (read_bignum (35%N :: r))) < length (35%N :: r))%nat.
Proof.
  unfold read_bignum. rewrite expect_head by reflexivity. cbn [negb].
  pose proof (read_until_length (N.eqb 35) r) as H1. destruct (read_until (N.eqb 35) r) as [d l2]. cbn [snd] in H1.
  destruct (expect_length 35 l2) as [H2 _]. destruct (expect 35 l2) as [ok2 l3]. cbn [snd] in *.
  destruct ok2; cbn; lia.
Qed.

Lemma skip_ws_head l c r : skip_ws l = c :: r -> isWhitespace c = false.
Proof.
  induction l as [|x l IH]; cbn; [discriminate|]. destruct (isWhitespace x) eqn:E; [exact IH|].
  intros H. injection H as <- <-. exact E.
Qed.
Lemma skip_ws_idem l : skip_ws (skip_ws l) = skip_ws l.
Proof.
  destruct (skip_ws l) as [|c r] eqn:E; [reflexivity|]. cbn. rewrite (skip_ws_head l c r E). reflexivity.
Qed.

(* what is read is never longer than the input, and an item that is not an end marker consumes at least one byte *)
Lemma read_progress f :
  (forall l v e r, read_value f l = Some (v, e, r) -> (length r <= length l)%nat /\ (e = false -> (length r < length l)%nat)) /\
  (forall l it r, read_items f l = Some (it, r) -> (length r <= length l)%nat).
Proof.
  induction f as [|f [IHv IHi]]; [split; intros; discriminate|]. split.
  - intros l v e r. cbn [read_value]. pose proof (skip_ws_length l) as Hs.
    destruct (skip_ws l) as [|c l0'] eqn:El0.
    { intros H. injection H as <- <- <-. cbn. split; [lia|discriminate]. }
    set (l0 := c :: l0') in *. pose proof (skip_ws_head l c l0' El0) as Hnw.
    destruct (c =? 40) eqn:E40.
    + apply N.eqb_eq in E40. subst c. unfold l0. rewrite expect_head by reflexivity. cbn [negb].
      destruct (read_items f l0') as [[items l2]|] eqn:Ei; [|discriminate].
      pose proof (IHi _ _ _ Ei) as H2. destruct (expect_length 41 l2) as [H3 _]. destruct (expect 41 l2) as [ok2 l3]. cbn [snd] in H3.
      intros H. injection H as <- <- <-. cbn in *. split; [lia | intros _; lia].
    + destruct (c =? 41) eqn:E41; [intros H; injection H as <- <- <-; split; [exact Hs|discriminate]|].
      destruct (c =? 34) eqn:E34.
      * apply N.eqb_eq in E34. subst c. pose proof (read_string_progress l0') as Hp. unfold l0.
        destruct (read_string (34 :: l0')) as [v' r']. cbn [snd] in Hp. intros H. injection H as <- <- <-. cbn in *. split; [lia | intros _; lia].
      * destruct (c =? 35) eqn:E35.
        -- apply N.eqb_eq in E35. subst c. pose proof (read_bignum_progress l0') as Hp. unfold l0.
           destruct (read_bignum (35 :: l0')) as [v' r']. cbn [snd] in Hp. intros H. injection H as <- <- <-. cbn in *. split; [lia | intros _; lia].
        -- unfold read_symbol. unfold l0. replace (skip_ws (c :: l0')) with (c :: l0') by (cbn; rewrite Hnw; reflexivity).
           assert (Hst : isNotSymbolCharacter c = false).
           { unfold isNotSymbolCharacter. rewrite Hnw, E40, E41. reflexivity. }
           pose proof (read_until_progress isNotSymbolCharacter c l0' Hst) as Hp.
           destruct (read_until isNotSymbolCharacter (c :: l0')) as [d r']. cbn [snd] in Hp.
           intros H. injection H as <- <- <-. cbn in *. split; [lia | intros _; lia].
  - intros l it r. cbn [read_items].
    destruct (read_value f l) as [[[v e] r1]|] eqn:Ev; [|discriminate].
    destruct (IHv _ _ _ _ Ev) as [H1 H2]. destruct e.
    + intros H. injection H as <- <-. exact H1.
    + destruct (read_items f r1) as [[rest r']|] eqn:Ei; [|discriminate].
      intros H. injection H as <- <-. pose proof (IHi _ _ _ Ei). lia.
Qed.

(* enough fuel: the reader returns *)
Lemma read_total f :
  (forall l, (2 * length l + 1 <= f)%nat -> read_value f l <> None) /\
  (forall l, (2 * length l + 2 <= f)%nat -> read_items f l <> None).
Proof.
  induction f as [|f [IHv IHi]]; [split; intros; lia|]. split.
  - intros l Hf. cbn [read_value]. pose proof (skip_ws_length l) as Hs.
    destruct (skip_ws l) as [|c l0'] eqn:El0; [discriminate|].
    pose proof (skip_ws_head l c l0' El0) as Hnw.
    destruct (c =? 40) eqn:E40.
    + apply N.eqb_eq in E40. subst c. rewrite expect_head by reflexivity. cbn [negb].
      destruct (read_items f l0') as [[items l2]|] eqn:Ei.
      * destruct (expect 41 l2). discriminate.
      * exfalso. apply (IHi l0'); [cbn in Hs; lia | exact Ei].
    + destruct (c =? 41); [discriminate|]. destruct (c =? 34); [destruct (read_string _); discriminate|].
      destruct (c =? 35); [destruct (read_bignum _); discriminate|]. destruct (read_symbol _); discriminate.
  - intros l Hf. cbn [read_items].
    destruct (read_value f l) as [[[v e] r1]|] eqn:Ev; [|exfalso; apply (IHv l); [lia | exact Ev]].
    destruct e; [discriminate|].
    destruct (proj1 (read_progress f) _ _ _ _ Ev) as [_ H2]. specialize (H2 eq_refl).
    destruct (read_items f r1) as [[rest r']|] eqn:Ei; [discriminate|].
    exfalso. apply (IHi r1); [lia | exact Ei].
Qed.

Theorem sexp_read_total l : sexp_read l <> None.
Proof.
  unfold sexp_read. destruct (read_value (2 * length l + 4) l) as [[[v e] r]|] eqn:E; [discriminate|].
  exfalso. apply (proj1 (read_total (2 * length l + 4)) l); [lia | exact E].
Qed.
