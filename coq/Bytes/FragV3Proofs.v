(* C14 for the version 3 wire format: the pieces fragment() produces with instance tags, delivered in order to a version 3
   conversation that the tags address, reassemble to exactly the original message, once. *)
From OTR Require Import Go.Base Gen.Consts Bytes.Strconv Bytes.StrconvProofs Bytes.Frag Bytes.FragProofs Bytes.TagsProofs Bytes.FragV3.
From Coq Require Import ZifyBool ZifyN ZifyNat.
Open Scope N_scope.

(* the 23-byte prefix carries the two tags (the computation inside TagsProofs.extract_tags_fragment) *)
Lemma v3FragmentTags_prefix n total s r rest : s < 4294967296 -> r < 4294967296 ->
  v3FragmentTags (fragPrefixV3 n total s r ++ rest) = Some (s, r).
Proof.
  intros Hs Hr. pose proof (extract_tags_fragment n total s r rest Hs Hr) as E.
  unfold ExtractInstanceTags in E.
  assert (P0 : is_prefix otr_colon (fragPrefixV3 n total s r ++ rest) = false) by reflexivity.
  assert (P1 : is_prefix otr_bar (fragPrefixV3 n total s r ++ rest) = true) by reflexivity.
  rewrite P0, P1 in E. destruct (v3FragmentTags (fragPrefixV3 n total s r ++ rest)) as [[s' r']|]; [|discriminate].
  injection E as -> ->. reflexivity.
Qed.

Lemma skipn23_prefix n total s r rest : s < 4294967296 -> r < 4294967296 ->
  skipn 23 (fragPrefixV3 n total s r ++ rest) = fmt_d 5 (n + 1) ++ [comma] ++ fmt_d 5 total ++ [comma] ++ rest.
Proof.
  intros Hs Hr.
  assert (Lx : forall t, t < 4294967296 -> length (fmt_x 8 t) = 8%nat).
  { intros t Ht. apply fmt_x_length; [change (16 ^ N.of_nat 8) with 4294967296; exact Ht | lia]. }
  set (H := v_otrv3FragmentationPrefix ++ fmt_x 8 s ++ [bar] ++ fmt_x 8 r ++ [comma]).
  assert (E : fragPrefixV3 n total s r ++ rest = H ++ (fmt_d 5 (n + 1) ++ [comma] ++ fmt_d 5 total ++ [comma] ++ rest)).
  { unfold fragPrefixV3, H. rewrite <- !app_assoc. reflexivity. }
  assert (LH : length H = 23%nat) by (unfold H; rewrite !app_length, !Lx by assumption; reflexivity).
  rewrite E. replace 23%nat with (length H) by exact LH. apply skipn_app_exact.
Qed.

(* who the pieces are for: a legal sender tag the conversation is not bound against, a receiver tag that is ours or none *)
Definition addressed (our their its itr : N) : Prop :=
  c_minValidInstanceTag <= its /\ its < 4294967296 /\ (itr = 0 \/ (itr = our /\ c_minValidInstanceTag <= our /\ our < 4294967296)) /\
  (their = 0 \/ their = its).

Lemma tags_accept_addressed our their its itr : addressed our their its itr -> tags_accept our their its itr = true.
Proof.
  intros [H1 [H2 [H3 H4]]]. unfold tags_accept.
  destruct H3 as [-> | [-> [H5 H6]]]; destruct H4 as [-> | ->]; cbn;
    repeat match goal with |- context [?a <? ?b] => destruct (N.ltb_spec a b); try lia end;
    repeat match goal with |- context [?a =? ?b] => destruct (N.eqb_spec a b); try lia end; reflexivity.
Qed.

Lemma receiveFragmentV3_piece our c their its itr i num d :
  addressed our their its itr -> N.of_nat i + 1 <= 65535 -> N.of_nat num <= 65535 -> no_comma d ->
  receiveFragmentV3 our (c, their) (fragPrefixV3 (N.of_nat i) (N.of_nat num) its itr ++ d ++ [comma]) =
  let '(c', out) := frag_step c {| ar_data := d; ar_ix := N.of_nat (S i); ar_len := N.of_nat num |} in ((c', its), out).
Proof.
  intros A Hi Hn Hd. pose proof A as A'. destruct A' as [H1 [H2 [H3 H4]]].
  assert (Hr : itr < 4294967296) by (destruct H3 as [-> | [-> [_ H]]]; [reflexivity|exact H]).
  unfold receiveFragmentV3. rewrite (v3FragmentTags_prefix _ _ _ _ _ H2 Hr), (tags_accept_addressed _ _ _ _ A). cbn [negb].
  rewrite (skipn23_prefix _ _ _ _ _ H2 Hr), parseFragment_piece by (auto; lia).
  unfold frag_step. cbn [ar_data ar_ix ar_len].
  replace (N.of_nat (S i)) with (N.of_nat i + 1) by lia.
  assert (Ht : (if their =? 0 then its else their) = its).
  { destruct H4 as [-> | ->]; [reflexivity|]. destruct (its =? 0); reflexivity. }
  rewrite Ht. destruct (fragmentsFinished _); reflexivity.
Qed.

Lemma addressed_bound our their its itr : addressed our their its itr -> addressed our its its itr.
Proof. intros [H1 [H2 [H3 _]]]. repeat split; auto. Qed.

Lemma run_recv_v3_stream our its itr data rf num (Hd : no_comma data) (Hn : N.of_nat num <= 65535) : forall m k c their,
  addressed our their its itr -> (k + m <= num)%nat -> (0 < m)%nat ->
  run_recv_v3 our (c, their) (map (fun i => fragPrefixV3 (N.of_nat i) (N.of_nat num) its itr ++ fragmentData data i rf ++ [comma]) (seq k m)) =
  let '(c', out) := frag_run c (stream (map (fun i => fragmentData data i rf) (seq k m)) (N.of_nat num) k) in ((c', its), out).
Proof.
  induction m as [|m IH]; intros k c their A Hk Hm; [lia|].
  unfold stream. cbn [seq map length combine run_recv_v3 frag_run].
  rewrite (receiveFragmentV3_piece our c their its itr k num) by (try apply no_comma_fragmentData; auto; lia).
  destruct (frag_step c _) as [c' d].
  destruct m as [|m'].
  - cbn [seq map combine run_recv_v3 frag_run length]. destruct d; reflexivity.
  - specialize (IH (S k) c' its (addressed_bound _ _ _ _ A) ltac:(lia) ltac:(lia)). unfold stream in IH.
    rewrite map_length, seq_length in *. rewrite IH.
    destruct (frag_run c' _) as [c'' ds]. reflexivity.
Qed.

(* C14 lossless + exactly once, version 3 format *)
Theorem frag_roundtrip_v3 our their its itr data fraglen :
  addressed our their its itr ->
  no_comma data -> fraglen < lenN data -> (hdr_len true + 2 <= N.to_nat fraglen)%nat ->
  lenN (fragment true its itr data fraglen) <= 65535 ->
  run_recv_v3 our (fc_empty, their) (fragment true its itr data fraglen) = ((fc_empty, its), [data]).
Proof.
  intros A Hd L Hroom Hcnt. unfold fragment in *.
  destruct (N.leb_spec (lenN data) fraglen) as [X|_]; [lia|]. cbn [orb] in *.
  destruct (N.eqb_spec fraglen 0) as [Z|Z]; [simpl in Hroom; lia|].
  assert (Hh : length (fragPrefix true 1 1 its itr) = 35%nat).
  { apply (fragPrefix_len true 1 1 its itr); [|lia|lia].
    destruct A as [H1 [H2 [H3 _]]]. unfold tags_ok. split; [exact H2|]. destruct H3 as [-> | [-> [_ H]]]; [reflexivity|exact H]. }
  rewrite Hh in *. simpl hdr_len in Hroom.
  destruct (Nat.leb_spec (N.to_nat fraglen) (35 + 1)) as [X|X]; [lia|].
  set (rf := (N.to_nat fraglen - 35 - 1)%nat) in *.
  set (num := (length data / rf + 1)%nat) in *.
  rewrite frag_pieces_map in *. unfold lenN in Hcnt. rewrite map_length, seq_length in Hcnt.
  unfold fragPrefix.
  rewrite (run_recv_v3_stream our its itr data rf num Hd Hcnt num 0%nat fc_empty their A) by (unfold num; lia).
  assert (Hlen : length (map (fun i => fragmentData data i rf) (seq 0 num)) = num)
    by (rewrite map_length, seq_length; reflexivity).
  pose proof (frag_run_stream (map (fun i => fragmentData data i rf) (seq 0 num)) [] 0%nat (N.of_nat num)) as R.
  cbn [Nat.eqb] in R. rewrite Hlen in R. change (N.of_nat 0) with 0 in R.
  unfold fc_empty. rewrite R; try lia; auto; try (unfold num; lia).
  cbn [app]. unfold num. rewrite pieces_concat_all by (unfold rf; lia). reflexivity.
Qed.
