(* C15: the routing helper reports exactly the tags a message or fragment carries. *)
From OTR Require Import Go.Base Gen.Consts Bytes.Wire Bytes.WireProofs Bytes.Strconv Bytes.StrconvProofs
  Bytes.B64 Bytes.B64Proofs Bytes.Frag.
From Coq Require Import ZifyBool ZifyN ZifyNat.
Open Scope N_scope.

Lemma b64encode_wf_nosep b : wfb b -> Forall (fun c => c <> 61 \/ True) (b64encode b).
Proof. intros _. apply Forall_forall. intros; right; exact I. Qed.

Theorem decode_encode msg : wfb msg -> decode (encode msg) = Ok msg.
Proof.
  intros W. unfold decode, encode, removeEnvelope.
  set (e := b64encode msg).
  assert (Hlen : length (v_msgMarker ++ e ++ [46]) = (length v_msgMarker + (length e + 1))%nat)
    by (rewrite !app_length; reflexivity).
  rewrite Hlen.
  destruct (Nat.leb_spec (length v_msgMarker + (length e + 1)) (length v_msgMarker)) as [X|X]; [lia|].
  cbn [bindR]. rewrite skipn_app_exact.
  replace (length v_msgMarker + (length e + 1) - 1 - length v_msgMarker)%nat with (length e) by lia.
  rewrite firstn_app_exact. unfold b64decode, e. rewrite (b64_roundtrip _ msg [] (le_n _) W). reflexivity.
Qed.

Definition v3_header (ty s r : N) : bytes := ser_short 3 ++ [ty] ++ ser_word s ++ ser_word r.

Theorem extract_tags_encoded ty s r body :
  ty < 256 -> s < 4294967296 -> r < 4294967296 -> wfb body ->
  ExtractInstanceTags (encode (v3_header ty s r ++ body)) = Ok (Some (r, s)).
Proof.
  intros Ht Hs Hr Wb. unfold ExtractInstanceTags.
  assert (P1 : is_prefix otr_colon (encode (v3_header ty s r ++ body)) = true) by reflexivity.
  rewrite P1.
  assert (W : wfb (v3_header ty s r ++ body)).
  { apply wfb_app. split; [|exact Wb]. unfold v3_header. apply wfb_app. split; [apply ser_short_wf|].
    apply wfb_app. split; [apply wfb_cons; split; [exact Ht | apply wfb_nil]|].
    apply wfb_app. split; apply ser_word_wf. }
  rewrite decode_encode by exact W.
  assert (L : (length (encode (v3_header ty s r ++ body)) <=? length v_msgMarker)%nat = false).
  { apply Nat.leb_gt. unfold encode. rewrite !app_length. cbn [length]. change (length v_msgMarker) with 5%nat. lia. }
  rewrite L.
  assert (Hl : lenN (v3_header ty s r ++ body) <? c_otrv3HeaderLen = false).
  { apply N.ltb_ge. rewrite lenN_app. unfold c_otrv3HeaderLen, v3_header, ser_short, ser_word.
    rewrite !lenN_app, !lenN_cons, lenN_nil. lia. }
  rewrite Hl. unfold v3_header at 1. rewrite <- !app_assoc.
  rewrite (ExtractShort_ser 3) by lia. change (negb (3 =? 3)) with false. cbn iota.
  unfold v3_header. unfold ser_short at 1. cbn [app skipn].
  change (N.to_nat c_messageHeaderPrefix) with 3%nat. cbn [skipn].
  rewrite <- !app_assoc. rewrite ExtractWord_ser by exact Hs. rewrite ExtractWord_ser by exact Hr. reflexivity.
Qed.

Lemma firstn_app_le {A} n (a b : list A) : (n = length a)%nat -> firstn n (a ++ b) = a.
Proof. intros ->. apply firstn_app_exact. Qed.

Theorem extract_tags_fragment n total s r rest :
  s < 4294967296 -> r < 4294967296 ->
  ExtractInstanceTags (fragPrefixV3 n total s r ++ rest) = Ok (Some (r, s)).
Proof.
  intros Hs Hr. unfold ExtractInstanceTags.
  assert (P0 : is_prefix otr_colon (fragPrefixV3 n total s r ++ rest) = false) by reflexivity.
  assert (P1 : is_prefix otr_bar (fragPrefixV3 n total s r ++ rest) = true) by reflexivity.
  rewrite P0, P1. unfold v3FragmentTags.
  assert (Lx : forall t, t < 4294967296 -> length (fmt_x 8 t) = 8%nat).
  { intros t Ht. apply fmt_x_length; [change (16 ^ N.of_nat 8) with 4294967296; exact Ht | lia]. }
  set (H := v_otrv3FragmentationPrefix ++ fmt_x 8 s ++ [bar] ++ fmt_x 8 r ++ [comma]).
  assert (E : fragPrefixV3 n total s r ++ rest = H ++ (fmt_d 5 (n + 1) ++ [comma] ++ fmt_d 5 total ++ [comma]) ++ rest).
  { unfold fragPrefixV3, H. rewrite <- !app_assoc. reflexivity. }
  assert (LH : length H = 23%nat).
  { unfold H. rewrite !app_length, !Lx by assumption. reflexivity. }
  rewrite E.
  destruct (Nat.ltb_spec (length (H ++ (fmt_d 5 (n + 1) ++ [comma] ++ fmt_d 5 total ++ [comma]) ++ rest)) 23) as [X|X].
  { rewrite app_length in X. lia. }
  rewrite (firstn_app_le 23 H) by (symmetry; exact LH).
  destruct (no_sep_avoids _ (fmt_nosep 8 s 16 ltac:(lia) ltac:(lia))) as [Cs Bs].
  destruct (no_sep_avoids _ (fmt_nosep 8 r 16 ltac:(lia) ltac:(lia))) as [Cr Br].
  (* header part before the first comma *)
  assert (Hc : avoids comma (v_otrv3FragmentationPrefix ++ fmt_x 8 s ++ [bar] ++ fmt_x 8 r)).
  { unfold avoids, comma, bar, fmt_x. apply Forall_app; split; [repeat (constructor; [lia|]); constructor|].
    apply Forall_app; split; [exact Cs|]. apply Forall_app; split; [repeat (constructor; [lia|]); constructor | exact Cr]. }
  unfold H. unfold split.
  replace (v_otrv3FragmentationPrefix ++ fmt_x 8 s ++ [bar] ++ fmt_x 8 r ++ [comma])
    with ((v_otrv3FragmentationPrefix ++ fmt_x 8 s ++ [bar] ++ fmt_x 8 r) ++ comma :: [])
    by (rewrite <- !app_assoc; reflexivity).
  rewrite split_on_sep_gen by exact Hc. cbn [rev app].
  (* split the header part on '|' *)
  change v_otrv3FragmentationPrefix with ([63; 79; 84; 82] ++ bar :: []).
  rewrite <- !app_assoc. cbn [app].
  change (63 :: 79 :: 84 :: 82 :: bar :: fmt_x 8 s ++ bar :: fmt_x 8 r) with ([63; 79; 84; 82] ++ bar :: (fmt_x 8 s ++ bar :: fmt_x 8 r)).
  rewrite split_on_sep_gen by (unfold avoids, bar; repeat (constructor; [lia|]); constructor). cbn [rev app].
  rewrite split_on_sep_gen by (unfold fmt_x; exact Bs). cbn [rev app].
  rewrite split_on_plain_gen by (unfold fmt_x; exact Br). cbn [rev app].
  rewrite !parseItag_fmt by assumption. reflexivity.
Qed.

(* version 2 messages and fragments carry no tags *)
Theorem extract_tags_v2_fragment rest : ExtractInstanceTags (v_otrv2FragmentationPrefix ++ rest) = Ok None.
Proof. reflexivity. Qed.
