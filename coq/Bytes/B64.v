(* Mirror of encoding/base64.StdEncoding as used by b64.go, and of the "?OTR:" envelope
   (encode / removeOTRMsgEnvelope / decode in data_message.go, receive.go). *)
From OTR Require Import Go.Base Gen.Consts.
Open Scope N_scope.

Definition b64_char (v : N) : N :=
  if v <? 26 then 65 + v else if v <? 52 then 71 + v else if v <? 62 then v - 4
  else if v =? 62 then 43 else 47.

Definition b64_val (c : N) : option N :=
  if (65 <=? c) && (c <=? 90) then Some (c - 65)
  else if (97 <=? c) && (c <=? 122) then Some (c - 71)
  else if (48 <=? c) && (c <=? 57) then Some (c + 4)
  else if c =? 43 then Some 62
  else if c =? 47 then Some 63
  else None.

Fixpoint b64encode (b : bytes) : bytes :=
  match b with
  | [] => []
  | [x] => [b64_char (x / 4); b64_char (x mod 4 * 16); 61; 61]
  | [x; y] => [b64_char (x / 4); b64_char (x mod 4 * 16 + y / 16); b64_char (y mod 16 * 4); 61]
  | x :: y :: z :: r =>
      b64_char (x / 4) :: b64_char (x mod 4 * 16 + y / 16) ::
      b64_char (y mod 16 * 4 + z / 64) :: b64_char (z mod 64) :: b64encode r
  end.

Definition is_nl (c : N) : bool := (c =? 10) || (c =? 13).
Fixpoint skip_nl (b : bytes) : bytes :=
  match b with c :: r => if is_nl c then skip_nl r else b | [] => [] end.

(* q: sextets of the current quantum, most recent first; out: decoded bytes, reversed *)
Fixpoint b64dec (src : bytes) (q : list N) (out : bytes) : option bytes :=
  match src with
  | [] => match q with [] => Some (rev out) | _ => None end
  | c :: r =>
      match b64_val c with
      | Some v =>
          match q with
          | [c3; c2; c1] =>
              b64dec r [] ((c3 mod 4 * 64 + v) :: (c2 mod 16 * 16 + c3 / 4) :: (c1 * 4 + c2 / 16) :: out)
          | _ => b64dec r (v :: q) out
          end
      | None =>
          if is_nl c then b64dec r q out
          else if c =? 61 then
            match q with
            | [c2; c1] =>
                match skip_nl r with
                | 61 :: r' => match skip_nl r' with
                              | [] => Some (rev ((c1 * 4 + c2 / 16) :: out))
                              | _ => None
                              end
                | _ => None
                end
            | [c3; c2; c1] =>
                match skip_nl r with
                | [] => Some (rev ((c2 mod 16 * 16 + c3 / 4) :: (c1 * 4 + c2 / 16) :: out))
                | _ => None
                end
            | _ => None
            end
          else None
      end
  end.

Definition b64decode (b : bytes) : option bytes := b64dec b [] [].

Definition encode (msg : bytes) : bytes := v_msgMarker ++ b64encode msg ++ [46].

(* removeOTRMsgEnvelope slices [len(marker) : len-1]; Go panics when len-1 < len(marker) *)
Definition removeEnvelope (m : bytes) : R bytes :=
  if (length m <=? length v_msgMarker)%nat then Panic
  else Ok (firstn (length m - 1 - length v_msgMarker) (skipn (length v_msgMarker) m)).

Definition decode (m : bytes) : R bytes :=
  do inner <- removeEnvelope m;
  match b64decode inner with Some d => Ok d | None => Err 1 end.
