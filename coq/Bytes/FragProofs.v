(* C14: the reassembly state machine only ever completes an in-order 1..n run, and a
   completed message is handed on exactly once. *)
From OTR Require Import Go.Base Bytes.Strconv Bytes.Frag Bytes.WireProofs.
From Coq Require Import ZifyBool ZifyN ZifyNat.
Open Scope N_scope.

Record arrival := { ar_data : bytes; ar_ix : N; ar_len : N }.

(* the context machine of receiveFragment + the completion step of receiveUnit, over parsed arrivals *)
Definition frag_step (c : fragctx) (a : arrival) : fragctx * option bytes :=
  let c' := frag_apply c (ar_data a) (ar_ix a) (ar_len a) in
  if fragmentsFinished c' then (fc_empty, Some (fc_frag c')) else (c', None).

Fixpoint frag_run (c : fragctx) (l : list arrival) : fragctx * list bytes :=
  match l with
  | [] => (c, [])
  | a :: r => let '(c', d) := frag_step c a in
              let '(c'', ds) := frag_run c' r in
              (c'', match d with Some m => m :: ds | None => ds end)
  end.

(* ghost: the accepted arrivals of the stream being assembled, oldest first *)
Definition stream_ok (acc : list arrival) (n : N) : Prop :=
  forall i a, nth_error acc i = Some a -> ar_ix a = N.of_nat (S i) /\ ar_len a = n.

Definition Inv (c : fragctx) (acc : list arrival) : Prop :=
  fc_frag c = concat (map ar_data acc) /\ fc_index c = lenN acc /\
  stream_ok acc (fc_len c) /\ (acc = [] \/ fc_index c < fc_len c) /\ fc_len c < 65536.

Definition complete_stream (acc : list arrival) (m : bytes) : Prop :=
  acc <> [] /\ m = concat (map ar_data acc) /\ stream_ok acc (lenN acc).

Lemma Inv_empty : Inv fc_empty [].
Proof.
  unfold Inv, fc_empty; cbn [fc_frag fc_index fc_len map concat]. split; [reflexivity|].
  split; [reflexivity|]. split; [|split; [left; reflexivity | lia]].
  intros i a H; destruct i; discriminate.
Qed.

Lemma stream_ok_snoc acc n a : stream_ok acc n -> ar_ix a = N.of_nat (S (length acc)) -> ar_len a = n ->
  stream_ok (acc ++ [a]) n.
Proof.
  intros S Hi Hl i b Hn. destruct (Nat.lt_ge_cases i (length acc)) as [L|L].
  - rewrite nth_error_app1 in Hn by exact L. apply S; exact Hn.
  - rewrite nth_error_app2 in Hn by exact L. destruct (i - length acc)%nat as [|k] eqn:E.
    + simpl in Hn. inversion Hn; subst. assert (i = length acc) by lia. subst. tauto.
    + simpl in Hn. destruct k; discriminate.
Qed.

Lemma not_finished c acc : Inv c acc -> fragmentsFinished c = false.
Proof.
  intros [_ [Hi [_ [Hd _]]]]. unfold fragmentsFinished.
  destruct (N.ltb_spec 0 (fc_index c)); [|reflexivity]. destruct (N.eqb_spec (fc_index c) (fc_len c)); [|reflexivity].
  destruct Hd as [->|Hd]; [unfold lenN in Hi; simpl in Hi; lia | lia].
Qed.

(* one step preserves the invariant; a completion is exactly a full 1..n stream ending in [a] *)
Lemma frag_step_inv c acc a : Inv c acc -> ar_ix a < 65536 -> ar_len a < 65536 ->
  match frag_step c a with
  | (c', None) => exists acc', Inv c' acc' /\ incl acc' (acc ++ [a])
  | (c', Some m) => c' = fc_empty /\ ar_ix a = ar_len a /\
                    exists acc', complete_stream acc' m /\ incl acc' (acc ++ [a])
  end.
Proof.
  intros I Hx Hl. pose proof (not_finished c acc I) as NF.
  destruct I as [Hf [Hi [Hs [Hd Hb]]]]. unfold frag_step, frag_apply, frag_classify.
  destruct (N.eqb_spec (ar_ix a) 0) as [E0|E0]; cbn [orb].
  { rewrite NF. exists acc. split; [unfold Inv; auto | apply incl_appl, incl_refl]. }
  destruct (N.eqb_spec (ar_len a) 0) as [E1|E1]; cbn [orb].
  { rewrite NF. exists acc. split; [unfold Inv; auto | apply incl_appl, incl_refl]. }
  destruct (N.ltb_spec (ar_len a) (ar_ix a)) as [E2|E2].
  { rewrite NF. exists acc. split; [unfold Inv; auto | apply incl_appl, incl_refl]. }
  destruct (N.eqb_spec (ar_ix a) 1) as [E3|E3].
  { (* restart *)
    unfold fragmentsFinished. cbn [fc_index fc_len fc_frag]. rewrite E3.
    change (0 <? 1) with true. cbn [andb].
    assert (Sok : stream_ok [a] (ar_len a)).
    { intros i b Hn. destruct i; [|destruct i; discriminate]. inversion Hn; subst. rewrite E3. tauto. }
    destruct (N.eqb_spec 1 (ar_len a)) as [E4|E4].
    - split; [reflexivity|]. split; [lia|]. exists [a]. split.
      + split; [discriminate|]. split; [simpl; rewrite app_nil_r; reflexivity|].
        unfold lenN; simpl length. change (N.of_nat 1) with 1. rewrite E4. exact Sok.
      + apply incl_appr, incl_refl.
    - exists [a]. split; [|apply incl_appr, incl_refl].
      unfold Inv. cbn [fc_index fc_len fc_frag].
      split; [simpl; rewrite app_nil_r; reflexivity|]. split; [reflexivity|].
      split; [exact Sok|]. split; [right; lia | exact Hl]. }
  destruct ((u16 (fc_index c + 1) =? ar_ix a) && (fc_len c =? ar_len a)) eqn:E5.
  { (* append *)
    apply andb_true_iff in E5 as [E5 E6]. apply N.eqb_eq in E5. apply N.eqb_eq in E6.
    assert (Hidx : fc_index c < 65536) by (destruct Hd as [->|?]; [unfold lenN in Hi; simpl in Hi|]; lia).
    unfold u16 in E5.
    assert (Hix : ar_ix a = fc_index c + 1).
    { destruct (N.eq_dec (fc_index c + 1) 65536) as [Ew|Ew]; [rewrite Ew in E5; simpl in E5; lia|].
      rewrite N.mod_small in E5 by lia. lia. }
    assert (Hne : acc <> []).
    { intros ->. unfold lenN in Hi; simpl in Hi. lia. }
    destruct Hd as [?|Hd]; [contradiction|].
    assert (Sok : stream_ok (acc ++ [a]) (ar_len a)).
    { rewrite <- E6. apply stream_ok_snoc; auto. rewrite Hix, Hi. unfold lenN. lia. }
    assert (Hcat : fc_frag c ++ ar_data a = concat (map ar_data (acc ++ [a]))).
    { rewrite map_app, concat_app, Hf. simpl. rewrite app_nil_r. reflexivity. }
    unfold fragmentsFinished. cbn [fc_index fc_len fc_frag].
    destruct (N.ltb_spec 0 (ar_ix a)); [|lia]. cbn [andb].
    destruct (N.eqb_spec (ar_ix a) (ar_len a)) as [E7|E7].
    - split; [reflexivity|]. split; [exact E7|]. exists (acc ++ [a]). split; [|apply incl_refl].
      split; [intros X; apply app_eq_nil in X as [_ X]; discriminate|]. split; [exact Hcat|].
      replace (lenN (acc ++ [a])) with (ar_len a); [exact Sok|].
      rewrite lenN_app. unfold lenN at 2. simpl length. lia.
    - exists (acc ++ [a]). split; [|apply incl_refl]. unfold Inv. cbn [fc_index fc_len fc_frag].
      split; [exact Hcat|]. split; [rewrite lenN_app; unfold lenN at 2; simpl length; lia|].
      split; [exact Sok|]. split; [right; lia | exact Hl]. }
  (* forget *)
  unfold fragmentsFinished, fc_empty. cbn [fc_index]. change (0 <? 0) with false. cbn [andb].
  exists []. split; [apply Inv_empty | intros x []].
Qed.

Definition arrivals_ok (l : list arrival) : Prop := Forall (fun a => ar_ix a < 65536 /\ ar_len a < 65536) l.

(* every message the machine hands on is the in-order concatenation of a complete 1..n stream of
   arrivals, whatever was interleaved; and each hand-over consumes a distinct final piece *)
Theorem frag_only_complete : forall l c acc, Inv c acc -> arrivals_ok l ->
  forall m, In m (snd (frag_run c l)) ->
  exists acc', complete_stream acc' m /\ incl acc' (acc ++ l).
Proof.
  induction l as [|a l IH]; intros c acc I F m Hin; [simpl in Hin; contradiction|].
  inversion F as [|? ? [Hx Hl] F']; subst.
  cbn [frag_run] in Hin. pose proof (frag_step_inv c acc a I Hx Hl) as S.
  destruct (frag_step c a) as [c' d]. destruct (frag_run c' l) as [c'' ds] eqn:R. cbn [snd] in Hin.
  destruct d as [m0|].
  - destruct S as [-> [_ [acc' [C Hinc]]]]. destruct Hin as [<-|Hin].
    + exists acc'. split; [exact C|]. intros x Hx'. apply Hinc in Hx'.
      apply in_app_or in Hx' as [?|[<-|[]]]; apply in_or_app; [left; auto | right; left; auto].
    + specialize (IH fc_empty [] Inv_empty F' m). rewrite R in IH. destruct (IH Hin) as [acc2 [C2 I2]].
      exists acc2. split; [exact C2|]. intros x Hx'. apply I2 in Hx'. simpl in Hx'.
      apply in_or_app. right. right. exact Hx'.
  - destruct S as [acc' [I' Hinc]]. specialize (IH c' acc' I' F' m). rewrite R in IH.
    destruct (IH Hin) as [acc2 [C2 I2]]. exists acc2. split; [exact C2|].
    intros x Hx'. apply I2 in Hx'. apply in_app_or in Hx' as [Hx'|Hx'].
    + apply Hinc in Hx'. apply in_app_or in Hx' as [?|[<-|[]]]; apply in_or_app; [left; auto | right; left; auto].
    + apply in_or_app. right. right. exact Hx'.
Qed.

Theorem frag_once : forall l c acc, Inv c acc -> arrivals_ok l ->
  (length (snd (frag_run c l)) <= length (filter (fun a => N.eqb (ar_ix a) (ar_len a)) l))%nat.
Proof.
  induction l as [|a l IH]; intros c acc I F; [simpl; lia|].
  inversion F as [|? ? [Hx Hl] F']; subst.
  cbn [frag_run filter]. pose proof (frag_step_inv c acc a I Hx Hl) as S.
  destruct (frag_step c a) as [c' d]. destruct (frag_run c' l) as [c'' ds] eqn:R. cbn [snd].
  destruct d as [m0|].
  - destruct S as [-> [E _]]. rewrite E, N.eqb_refl. specialize (IH fc_empty [] Inv_empty F').
    rewrite R in IH. simpl in *. lia.
  - destruct S as [acc' [I' _]]. specialize (IH c' acc' I' F'). rewrite R in IH. simpl in IH.
    destruct (N.eqb (ar_ix a) (ar_len a)); simpl; lia.
Qed.

(* ------------------------------------------------------------------ *)
(* the sending side: piece length bound and in-order reassembly        *)
From OTR Require Import Gen.Consts Bytes.StrconvProofs.

Lemma fragmentData_len data i rf : (length (fragmentData data i rf) <= rf)%nat.
Proof.
  unfold fragmentData. etransitivity; [apply firstn_le_length|]. lia.
Qed.

Definition tags_ok (its itr : N) : Prop := its < 4294967296 /\ itr < 4294967296.

Definition hdr_len (v3 : bool) : nat := if v3 then 35%nat else 17%nat.

Lemma fragPrefix_len v3 n total its itr : tags_ok its itr -> n + 1 < 100000 -> total < 100000 ->
  length (fragPrefix v3 n total its itr) = hdr_len v3.
Proof.
  intros [H1 H2] Hn Ht. unfold fragPrefix, fragPrefixV2, fragPrefixV3. destruct v3.
  - rewrite !app_length, !fmt_x_length, !fmt_d_length; try reflexivity; try lia.
    all: try (change (10 ^ N.of_nat 5) with 100000; lia).
    all: change (16 ^ N.of_nat 8) with 4294967296; lia.
  - rewrite !app_length, !fmt_d_length; try reflexivity; try lia.
    all: change (10 ^ N.of_nat 5) with 100000; lia.
Qed.

Lemma frag_pieces_bound v3 its itr data rf num : tags_ok its itr -> N.of_nat num <= 99999 ->
  forall todo i, (i + todo = num)%nat ->
  Forall (fun p => (length p <= hdr_len v3 + rf + 1)%nat) (frag_pieces v3 its itr data rf num i todo).
Proof.
  intros T Hn. induction todo as [|t IH]; intros i E; cbn [frag_pieces]; constructor.
  - rewrite !app_length, fragPrefix_len; auto; try lia.
    pose proof (fragmentData_len data i rf). simpl. lia.
  - apply IH. lia.
Qed.

(* C14 bound: whenever the size leaves room for one payload byte after header and separator,
   every piece is at most [fraglen] bytes long (count of pieces within the 5-digit format) *)
Theorem frag_bound v3 its itr data fraglen : tags_ok its itr ->
  (hdr_len v3 + 2 <= N.to_nat fraglen)%nat ->
  lenN (fragment v3 its itr data fraglen) <= 99999 ->
  Forall (fun p => lenN p <= fraglen) (fragment v3 its itr data fraglen).
Proof.
  intros T Hroom Hcnt. unfold fragment in *.
  destruct (N.leb_spec (lenN data) fraglen) as [L|L]; cbn [orb].
  { constructor; [exact L | constructor]. }
  destruct (N.eqb_spec fraglen 0) as [Z|Z]; [lia|].
  rewrite fragPrefix_len in * by (auto; lia).
  destruct (Nat.leb_spec (N.to_nat fraglen) (hdr_len v3 + 1)) as [X|X]; [lia|].
  set (rf := (N.to_nat fraglen - hdr_len v3 - 1)%nat) in *.
  set (num := (length data / rf + 1)%nat) in *.
  assert (Hnum : N.of_nat num <= 99999).
  { assert (forall todo i, length (frag_pieces v3 its itr data rf num i todo) = todo) as LL.
    { induction todo; intros; simpl; auto. }
    cbn [orb] in Hcnt. unfold lenN in Hcnt. rewrite LL in Hcnt. exact Hcnt. }
  pose proof (frag_pieces_bound v3 its itr data rf num T Hnum num 0%nat eq_refl) as F.
  eapply Forall_impl; [|exact F]. intros p Hp. unfold rf in Hp. clear - Hp X.
  set (h := hdr_len v3) in *. clearbody h. unfold lenN. lia.
Qed.

(* --- reassembly --- *)
Lemma firstn_firstn_skipn {A} (l : list A) a b : (a <= b)%nat ->
  firstn a l ++ firstn (b - a) (skipn a l) = firstn b l.
Proof.
  intros H. rewrite <- (firstn_skipn a (firstn b l)). f_equal.
  - rewrite firstn_firstn. f_equal. lia.
  - rewrite skipn_firstn_comm. reflexivity.
Qed.

Lemma pieces_concat data rf k : (0 < rf)%nat ->
  concat (map (fun i => fragmentData data i rf) (seq 0 k)) = firstn (Nat.min (k * rf) (length data)) data.
Proof.
  intros Hrf. induction k as [|k IH]; [reflexivity|].
  rewrite seq_S, map_app, concat_app, IH. cbn [map concat plus]. rewrite app_nil_r.
  unfold fragmentData. replace (k + 1)%nat with (S k) by lia.
  destruct (Nat.le_gt_cases (k * rf) (length data)) as [L|L].
  - rewrite (Nat.min_l (k * rf)) by exact L.
    apply firstn_firstn_skipn. apply Nat.min_glb; [simpl; lia | exact L].
  - rewrite (Nat.min_r (k * rf)) by lia. rewrite (Nat.min_r (S k * rf)) by (simpl; lia).
    replace (length data - k * rf)%nat with 0%nat by lia. cbn [firstn]. rewrite app_nil_r. reflexivity.
Qed.

Lemma pieces_concat_all data rf : (0 < rf)%nat ->
  concat (map (fun i => fragmentData data i rf) (seq 0 (length data / rf + 1))) = data.
Proof.
  intros Hrf. rewrite pieces_concat by exact Hrf.
  rewrite Nat.min_r. apply firstn_all.
  pose proof (Nat.div_mod (length data) rf ltac:(lia)) as D.
  pose proof (Nat.mod_upper_bound (length data) rf ltac:(lia)). nia.
Qed.

(* bytes.Split on pieces without the separator *)
Definition no_comma (b : bytes) : Prop := Forall (fun c => c <> comma) b.

Lemma split_on_plain a : forall cur, no_comma a -> split_on comma a cur = [rev cur ++ a].
Proof.
  induction a as [|x a IH]; intros cur F; simpl.
  - rewrite app_nil_r. reflexivity.
  - inversion F; subst. destruct (N.eqb_spec x comma); [contradiction|].
    rewrite IH by assumption. simpl. rewrite <- app_assoc. reflexivity.
Qed.

Lemma split_on_sep a rest : forall cur, no_comma a ->
  split_on comma (a ++ comma :: rest) cur = (rev cur ++ a) :: split_on comma rest [].
Proof.
  induction a as [|x a IH]; intros cur F; simpl.
  - rewrite app_nil_r. reflexivity.
  - inversion F; subst. destruct (N.eqb_spec x comma); [contradiction|].
    rewrite IH by assumption. simpl. rewrite <- app_assoc. reflexivity.
Qed.

Lemma no_sep_no_comma b : no_sep b -> no_comma b.
Proof. unfold no_sep, no_comma, comma. intros F. eapply Forall_impl; [|exact F]. intros c [H _]; exact H. Qed.

Lemma fmt_d_no_comma w n : no_comma (fmt_d w n).
Proof. apply no_sep_no_comma. unfold fmt_d. apply fmt_nosep; lia. Qed.

Theorem parseFragment_piece k n d : k <= 65535 -> n <= 65535 -> no_comma d ->
  parseFragment (fmt_d 5 k ++ [comma] ++ fmt_d 5 n ++ [comma] ++ d ++ [comma]) = Some (d, k, n).
Proof.
  intros Hk Hn Hd. unfold parseFragment, split. cbn [app].
  rewrite split_on_sep by apply fmt_d_no_comma.
  rewrite split_on_sep by apply fmt_d_no_comma.
  rewrite split_on_sep by exact Hd. cbn [rev app split_on].
  rewrite !bytesToUint16_fmt by assumption. reflexivity.
Qed.

(* an in-order stream of [n] pieces, delivered to the machine, completes exactly once, with the
   concatenation of the pieces *)
Definition stream (ds : list bytes) (n : N) (from : nat) : list arrival :=
  map (fun '(i, d) => {| ar_data := d; ar_ix := N.of_nat (S i); ar_len := n |}) (combine (seq from (length ds)) ds).

Lemma frag_run_stream : forall ds pre k n,
  n = N.of_nat (k + length ds) -> (0 < length ds)%nat -> n < 65536 -> (k = 0%nat -> pre = []) ->
  frag_run {| fc_frag := pre; fc_index := N.of_nat k; fc_len := (if (k =? 0)%nat then 0 else n) |}
           (stream ds n k) = (fc_empty, [pre ++ concat ds]).
Proof.
  induction ds as [|d ds IH]; intros pre k n Hn Hpos Hb Hpre; [simpl in Hpos; lia|].
  unfold stream. cbn [length seq combine map frag_run].
  unfold frag_step, frag_apply, frag_classify. cbn [ar_ix ar_len ar_data fc_index fc_len fc_frag].
  assert (E0 : N.of_nat (S k) =? 0 = false) by (apply N.eqb_neq; lia).
  assert (E1 : n =? 0 = false) by (apply N.eqb_neq; simpl in Hn; lia).
  assert (E2 : n <? N.of_nat (S k) = false) by (apply N.ltb_ge; simpl in Hn; lia).
  rewrite E0, E1, E2. cbn [orb].
  destruct k as [|k].
  - (* first piece *)
    rewrite (Hpre eq_refl). change (N.of_nat 1 =? 1) with true. cbn [app].
    unfold fragmentsFinished. cbn [fc_index fc_len fc_frag]. change (0 <? N.of_nat 1) with true. cbn [andb].
    destruct ds as [|d2 ds].
    + simpl in Hn. subst n. change (N.of_nat 1 =? N.of_nat 1) with true. cbn [concat]. rewrite app_nil_r. reflexivity.
    + destruct (N.eqb_spec (N.of_nat 1) n) as [X|X]; [simpl in Hn; lia|].
      assert (IH' := IH d 1%nat n ltac:(simpl in *; lia) ltac:(simpl; lia) Hb ltac:(discriminate)).
      cbn [Nat.eqb] in IH'. unfold stream in IH'. rewrite IH'. cbn [concat]. reflexivity.
  - (* later piece *)
    destruct (N.eqb_spec (N.of_nat (S (S k))) 1) as [X|_]; [lia|].
    cbn [Nat.eqb]. unfold u16.
    assert (Eap : (N.of_nat (S k) + 1) mod 65536 =? N.of_nat (S (S k)) = true).
    { apply N.eqb_eq. rewrite N.mod_small by (simpl in Hn; lia). lia. }
    rewrite Eap, N.eqb_refl. cbn [andb].
    unfold fragmentsFinished. cbn [fc_index fc_len fc_frag].
    assert (E3 : 0 <? N.of_nat (S (S k)) = true) by (apply N.ltb_lt; lia). rewrite E3. cbn [andb].
    destruct ds as [|d2 ds].
    + simpl in Hn. assert (E4 : N.of_nat (S (S k)) =? n = true) by (apply N.eqb_eq; lia). rewrite E4.
      cbn [concat]. rewrite app_nil_r. reflexivity.
    + assert (E4 : N.of_nat (S (S k)) =? n = false) by (apply N.eqb_neq; simpl in Hn; lia). rewrite E4.
      assert (IH' := IH (pre ++ d) (S (S k)) n ltac:(simpl in *; lia) ltac:(simpl; lia) Hb ltac:(discriminate)).
      cbn [Nat.eqb] in IH'. unfold stream in IH'. rewrite IH'. cbn [concat]. rewrite <- app_assoc. reflexivity.
Qed.

(* --- end to end for the v2 format: fragment, then feed every piece to the receiver --- *)
Fixpoint run_recv_v2 (c : fragctx) (msgs : list bytes) : fragctx * list bytes :=
  match msgs with
  | [] => (c, [])
  | m :: r => let '(c', d) := receiveFragmentV2 c m in
              let '(c'', ds) := run_recv_v2 c' r in
              (c'', match d with Some x => x :: ds | None => ds end)
  end.

Lemma frag_pieces_map v3 its itr data rf num : forall todo i,
  frag_pieces v3 its itr data rf num i todo =
  map (fun i => fragPrefix v3 (N.of_nat i) (N.of_nat num) its itr ++ fragmentData data i rf ++ [comma]) (seq i todo).
Proof. induction todo as [|t IH]; intros i; cbn [frag_pieces seq map]; [reflexivity|]. rewrite IH. reflexivity. Qed.

Lemma In_firstn {A} n (l : list A) x : In x (firstn n l) -> In x l.
Proof. revert l; induction n; intros [|y l] H; simpl in *; try contradiction. destruct H; auto. Qed.
Lemma In_skipn {A} n (l : list A) x : In x (skipn n l) -> In x l.
Proof. revert l; induction n; intros [|y l] H; simpl in *; auto. Qed.

Lemma no_comma_fragmentData data i rf : no_comma data -> no_comma (fragmentData data i rf).
Proof.
  intros F. unfold fragmentData, no_comma in *. apply Forall_forall. intros x Hx.
  rewrite Forall_forall in F. apply F. eapply In_skipn. eapply In_firstn. exact Hx.
Qed.

Lemma receiveFragmentV2_piece c i num d :
  N.of_nat i + 1 <= 65535 -> N.of_nat num <= 65535 -> no_comma d ->
  receiveFragmentV2 c (fragPrefixV2 (N.of_nat i) (N.of_nat num) ++ d ++ [comma]) =
  frag_step c {| ar_data := d; ar_ix := N.of_nat (S i); ar_len := N.of_nat num |}.
Proof.
  intros Hi Hn Hd. unfold receiveFragmentV2, fragPrefixV2.
  assert (L5 : length v_otrv2FragmentationPrefix = 5%nat) by reflexivity.
  rewrite <- !app_assoc.
  destruct (Nat.ltb_spec (length (v_otrv2FragmentationPrefix ++
      fmt_d 5 (N.of_nat i + 1) ++ [comma] ++ fmt_d 5 (N.of_nat num) ++ [comma] ++ d ++ [comma])) 5) as [X|X].
  { rewrite app_length, L5 in X. lia. }
  replace 5%nat with (length v_otrv2FragmentationPrefix) at 1 by exact L5.
  rewrite skipn_app_exact.
  rewrite parseFragment_piece by (auto; lia).
  unfold frag_step. cbn [ar_data ar_ix ar_len].
  replace (N.of_nat (S i)) with (N.of_nat i + 1) by lia. reflexivity.
Qed.

Lemma run_recv_v2_stream data rf num (Hd : no_comma data) (Hn : N.of_nat num <= 65535) : forall m k c,
  (k + m <= num)%nat ->
  run_recv_v2 c (map (fun i => fragPrefixV2 (N.of_nat i) (N.of_nat num) ++ fragmentData data i rf ++ [comma]) (seq k m)) =
  frag_run c (stream (map (fun i => fragmentData data i rf) (seq k m)) (N.of_nat num) k).
Proof.
  induction m as [|m IH]; intros k c Hk; [reflexivity|].
  unfold stream. cbn [seq map length combine run_recv_v2 frag_run].
  rewrite receiveFragmentV2_piece by (try apply no_comma_fragmentData; auto; lia).
  destruct (frag_step c _) as [c' d].
  specialize (IH (S k) c' ltac:(lia)). unfold stream in IH. rewrite map_length, seq_length in *.
  rewrite IH. reflexivity.
Qed.

(* C14 lossless + exactly once (v2 header format): whenever fragmentation takes place, the peer that
   receives the pieces in order hands on exactly one message, equal to the original *)
Theorem frag_roundtrip_v2 its itr data fraglen :
  no_comma data -> fraglen < lenN data -> (hdr_len false + 2 <= N.to_nat fraglen)%nat ->
  lenN (fragment false its itr data fraglen) <= 65535 ->
  run_recv_v2 fc_empty (fragment false its itr data fraglen) = (fc_empty, [data]).
Proof.
  intros Hd L Hroom Hcnt. unfold fragment in *.
  destruct (N.leb_spec (lenN data) fraglen) as [X|_]; [lia|]. cbn [orb] in *.
  destruct (N.eqb_spec fraglen 0) as [Z|Z]; [simpl in Hroom; lia|].
  assert (Hh : length (fragPrefix false 1 1 its itr) = 17%nat) by reflexivity.
  rewrite Hh in *. simpl hdr_len in Hroom.
  destruct (Nat.leb_spec (N.to_nat fraglen) (17 + 1)) as [X|X]; [lia|].
  set (rf := (N.to_nat fraglen - 17 - 1)%nat) in *.
  set (num := (length data / rf + 1)%nat) in *.
  rewrite frag_pieces_map in *. unfold lenN in Hcnt. rewrite map_length, seq_length in Hcnt.
  unfold fragPrefix.
  rewrite (run_recv_v2_stream data rf num Hd Hcnt num 0%nat fc_empty) by lia.
  assert (Hlen : length (map (fun i => fragmentData data i rf) (seq 0 num)) = num)
    by (rewrite map_length, seq_length; reflexivity).
  pose proof (frag_run_stream (map (fun i => fragmentData data i rf) (seq 0 num)) [] 0%nat (N.of_nat num)) as R.
  cbn [Nat.eqb] in R. rewrite Hlen in R. change (N.of_nat 0) with 0 in R.
  unfold fc_empty. rewrite R; try lia; auto; try (unfold num; lia).
  cbn [app]. unfold num. rewrite pieces_concat_all by (unfold rf; lia). reflexivity.
Qed.
