(* C13: totality of the byte-level parsers (no panic, fuel never runs out, allocation bounded). *)
From OTR Require Import Go.Base Gen.Consts Bytes.Wire Bytes.WireProofs Bytes.Msgs Bytes.MsgsProofs Bytes.Strconv Bytes.B64 Bytes.Frag.
From Coq Require Import ZifyBool ZifyN ZifyNat.
Open Scope N_scope.

(* the envelope is removed only from messages longer than the marker: the routing helper never panics *)
Theorem ExtractInstanceTags_no_panic m : ExtractInstanceTags m <> Panic.
Proof.
  unfold ExtractInstanceTags. destruct (is_prefix otr_colon m).
  - destruct (Nat.leb_spec (length m) (length v_msgMarker)) as [L|L]; [discriminate|].
    unfold decode, removeEnvelope. destruct (Nat.leb_spec (length m) (length v_msgMarker)) as [L'|L']; [lia|].
    cbn [bindR]. destruct (b64decode _) as [msg|]; [|discriminate].
    destruct (lenN msg <? c_otrv3HeaderLen); [discriminate|].
    destruct (ExtractShort msg) as [[r ver]|]; [|discriminate].
    destruct (negb (ver =? 3)); [discriminate|].
    destruct (ExtractWord _) as [[rest s]|]; [|discriminate].
    destruct (ExtractWord rest) as [[r2 rr]|]; discriminate.
  - destruct (is_prefix otr_bar m); [|discriminate]. destruct (v3FragmentTags m) as [[s r]|]; discriminate.
Qed.

(* decode panics exactly on inputs not longer than the marker; Receive only decodes messages that matched a
   nine byte type prefix *)
Theorem decode_no_panic m : (length v_msgMarker < length m)%nat -> decode m <> Panic.
Proof.
  intros H. unfold decode, removeEnvelope. destruct (Nat.leb_spec (length m) (length v_msgMarker)); [lia|].
  cbn [bindR]. destruct (b64decode _); discriminate.
Qed.

(* the data-message and TLV parsers never panic *)
Theorem dataMsg_deser_no_panic b : dataMsg_deser b <> Panic.
Proof.
  unfold dataMsg_deser, dataMsg_deserUnsigned. destruct b as [|flag in0]; cbn [bindR]; [discriminate|].
  destruct (ExtractWord in0) as [[in1 sk]|]; cbn [bindR]; [|discriminate].
  destruct (ExtractWord in1) as [[in2 rk]|]; cbn [bindR]; [|discriminate].
  destruct (ExtractMPI in2) as [[in3 y]|]; cbn [bindR]; [|discriminate].
  destruct (lenN in3 <? 8); cbn [bindR]; [discriminate|].
  destruct (ctr_val in3 =? 0); cbn [bindR]; [discriminate|].
  destruct (ExtractData (skipn 8 in3)) as [[in5 enc]|]; cbn [bindR]; [|discriminate].
  destruct (lenN in5 <? hashLength); [discriminate|].
  destruct (ExtractData (skipn 20 in5)) as [[r rv]|]; [|discriminate].
  destruct (split_keys _ _ _); discriminate.
Qed.

(* fuel: the TLV loop consumes at least four bytes per round, so [length b] rounds always suffice:
   more fuel never changes the answer *)
Lemma tlv_deser_progress b t : tlv_deser b = Some t -> (4 <= length b)%nat.
Proof.
  unfold tlv_deser. destruct b as [|a [|b0 [|c [|d r]]]]; cbn; try discriminate; intros _; lia.
Qed.

Lemma tlvs_deser_fuel_irrelevant : forall n b acc f1 f2, (length b <= n)%nat -> (n <= f1)%nat -> (n <= f2)%nat ->
  tlvs_deser f1 b acc = tlvs_deser f2 b acc.
Proof.
  induction n as [|n IH]; intros b acc f1 f2 Hb H1 H2.
  - destruct b; [rewrite !tlvs_deser_nil; reflexivity | simpl in Hb; lia].
  - destruct b as [|x b']; [rewrite !tlvs_deser_nil; reflexivity|].
    destruct f1 as [|f1]; [lia|]. destruct f2 as [|f2]; [lia|].
    rewrite !tlvs_deser_step by discriminate.
    destruct (tlv_deser (x :: b')) as [t|] eqn:Et; [|reflexivity].
    pose proof (tlv_deser_progress _ _ Et) as P.
    apply IH; try lia. rewrite skipn_length. simpl in *. lia.
Qed.

(* with fuel = length of the input the TLV loop never runs out of fuel: more fuel gives the same answer *)
Theorem tlvs_deser_fuel_enough f b acc : (length b <= f)%nat -> tlvs_deser f b acc = tlvs_deser (length b) b acc.
Proof. intros H. apply (tlvs_deser_fuel_irrelevant (length b)); lia. Qed.
