(* Mirrors of messages.go, tlv.go (codec part), smp_msg*.go (tlv part), keys.go (wire form).
   Same field order and same order of checks as the Go code (after the repairs
   recorded in known_findings.jsonl).  Error values: Err 1 = "corrupt ..." otr error. *)
From OTR Require Import Go.Base Bytes.Wire.
Open Scope N_scope.

(* ---------------- AKE messages ---------------- *)
Record dhCommit := { encryptedGx : bytes; yhashedGx : bytes }.

Definition dhCommit_ser (c : dhCommit) : bytes :=
  AppendData (AppendData [] (encryptedGx c)) (yhashedGx c).

Definition dhCommit_deser (msg : bytes) : option dhCommit :=
  match ExtractData msg with
  | Some (msg', g) =>
      match ExtractData msg' with
      | Some (_, h) => Some {| encryptedGx := g; yhashedGx := h |}
      | None => None
      end
  | None => None
  end.

Definition dhKey_ser (gy : N) : bytes := AppendMPI [] gy.
Definition dhKey_deser (msg : bytes) : option N :=
  match ExtractMPI msg with Some (_, gy) => Some gy | None => None end.

Record revealSig := { rs_r : bytes; rs_encSig : bytes; rs_mac : bytes }.

(* [rs_encSig] on the sending side is the already length-prefixed X_B; macSig[:20] *)
Definition revealSig_ser (c : revealSig) : bytes :=
  AppendData [] (rs_r c) ++ rs_encSig c ++ firstn 20 (rs_mac c).

Definition revealSig_deser (msg : bytes) : option revealSig :=
  match ExtractData msg with
  | Some (inn, r) =>
      match ExtractData inn with
      | Some (macSig, encSig) =>
          if (lenN r =? 16) && (lenN macSig =? 20)
          then Some {| rs_r := r; rs_encSig := encSig; rs_mac := macSig |}
          else None
      | None => None
      end
  | None => None
  end.

Record sigMsg := { sg_encSig : bytes; sg_mac : bytes }.
Definition sig_ser (c : sigMsg) : bytes := sg_encSig c ++ firstn 20 (sg_mac c).
Definition sig_deser (msg : bytes) : option sigMsg :=
  match ExtractData msg with
  | Some (macSig, encSig) =>
      if lenN macSig =? 20 then Some {| sg_encSig := encSig; sg_mac := macSig |} else None
  | None => None
  end.

(* ---------------- data message ---------------- *)
Record dataMsg := {
  dm_flag : N; dm_sender : N; dm_recipient : N; dm_y : N;
  dm_ctr : bytes;            (* 8 bytes *)
  dm_enc : bytes; dm_auth : bytes; dm_oldmac : list bytes;
  dm_cache : bytes           (* serializeUnsignedCache: the bytes the MAC covers *)
}.

Definition dataMsg_serUnsigned (c : dataMsg) : bytes :=
  AppendData (AppendMPI (AppendWord (AppendWord [dm_flag c] (dm_sender c)) (dm_recipient c)) (dm_y c)
              ++ dm_ctr c) (dm_enc c).

(* serialize uses the cache when present (it always is after sign/deserialize) *)
Definition dataMsg_ser (c : dataMsg) : bytes :=
  AppendData (dm_cache c ++ dm_auth c) (concat (dm_oldmac c)).

Definition hashLength : N := 20.

Fixpoint split_keys (fuel : nat) (b : bytes) (acc : list bytes) : option (list bytes) :=
  match b with
  | [] => Some (rev acc)
  | _ => match fuel with
         | O => None
         | S f => if lenN b <? hashLength then None
                  else split_keys f (skipn 20 b) (firstn 20 b :: acc)
         end
  end.

Definition ctr_val (c : bytes) : N := be_val (firstn 8 c).

(* result: Err 1..8 identify the failing step in source order *)
Definition dataMsg_deserUnsigned (msg : bytes) : R (dataMsg * bytes) :=
  match msg with
  | [] => Err 1
  | flag :: in0 =>
    match ExtractWord in0 with None => Err 2 | Some (in1, sk) =>
    match ExtractWord in1 with None => Err 3 | Some (in2, rk) =>
    match ExtractMPI in2 with None => Err 4 | Some (in3, y) =>
    if lenN in3 <? 8 then Err 5 else
    if ctr_val in3 =? 0 then Err 6 else
    match ExtractData (skipn 8 in3) with None => Err 7 | Some (in5, enc) =>
      let cache := firstn (length msg - length in5) msg in
      Ok ({| dm_flag := flag; dm_sender := sk; dm_recipient := rk; dm_y := y;
             dm_ctr := firstn 8 in3; dm_enc := enc; dm_auth := []; dm_oldmac := [];
             dm_cache := cache |}, in5)
    end end end end
  end.

Definition dataMsg_deser (msg : bytes) : R dataMsg :=
  do cr <- dataMsg_deserUnsigned msg;
  let '(c, rest) := cr in
  if lenN rest <? hashLength then Err 9 else
  let auth := firstn 20 rest in
  match ExtractData (skipn 20 rest) with
  | None => Err 8
  | Some (_, rev) =>
      match split_keys (length rev) rev [] with
      | None => Err 8
      | Some ks =>
          Ok {| dm_flag := dm_flag c; dm_sender := dm_sender c; dm_recipient := dm_recipient c;
                dm_y := dm_y c; dm_ctr := dm_ctr c; dm_enc := dm_enc c; dm_auth := auth;
                dm_oldmac := ks; dm_cache := dm_cache c |}
      end
  end.

(* ---------------- TLVs and the plaintext inside a data message ---------------- *)
Record tlv := { tlvType : N; tlvLength : N; tlvValue : bytes }.

Definition tlv_ser (t : tlv) : bytes :=
  AppendShort (AppendShort [] (tlvType t)) (tlvLength t) ++ tlvValue t.

Definition tlv_deser (b : bytes) : option tlv :=
  match ExtractShort b with
  | None => None
  | Some (b1, ty) =>
      match ExtractShort b1 with
      | None => None
      | Some (b2, len) =>
          if lenN b2 <? len then None
          else Some {| tlvType := ty; tlvLength := len; tlvValue := firstn (N.to_nat len) b2 |}
      end
  end.

Record plainDataMsg := { pm_message : bytes; pm_tlvs : list tlv }.

Fixpoint split_nul (msg : bytes) : bytes * option bytes :=
  match msg with
  | [] => ([], None)
  | 0 :: r => ([], Some r)
  | x :: r => let '(m, t) := split_nul r in (x :: m, t)
  end.

Fixpoint tlvs_deser (fuel : nat) (b : bytes) (acc : list tlv) : option (list tlv) :=
  match b with
  | [] => Some (rev acc)
  | _ => match fuel with
         | O => None
         | S f => match tlv_deser b with
                  | None => None
                  | Some t => tlvs_deser f (skipn (4 + N.to_nat (tlvLength t)) b) (t :: acc)
                  end
         end
  end.

Definition plainDataMsg_deser (msg : bytes) : option plainDataMsg :=
  let '(m, t) := split_nul msg in
  match t with
  | None => Some {| pm_message := m; pm_tlvs := [] |}
  | Some tb => match tlvs_deser (length tb) tb [] with
               | Some ts => Some {| pm_message := m; pm_tlvs := ts |}
               | None => None
               end
  end.

Definition tlvs_ser (ts : list tlv) : bytes := concat (map tlv_ser ts).
Definition plainDataMsg_ser (c : plainDataMsg) : bytes :=
  pm_message c ++ [0] ++ tlvs_ser (pm_tlvs c).

Definition paddingGranularity : N := 256.
Definition pad_len (msglen : N) : N := paddingGranularity - ((msglen + 4 + 1) mod paddingGranularity).
Definition plainDataMsg_pad (c : plainDataMsg) : plainDataMsg :=
  let p := pad_len (lenN (pm_message c)) in
  {| pm_message := pm_message c;
     pm_tlvs := pm_tlvs c ++ [{| tlvType := 0; tlvLength := u16 p; tlvValue := repeat 0 (N.to_nat p) |}] |}.

(* ---------------- SMP payloads ---------------- *)
(* genSMPTLV: the 16-bit length wraps as in Go *)
Definition genSMPTLV (tp : N) (mpis : list N) : tlv :=
  let data := AppendMPIs (AppendWord [] (u32 (lenN mpis))) mpis in
  {| tlvType := tp; tlvLength := u16 (lenN data); tlvValue := data |}.

Definition smp1_tlv (mpis : list N) (question : option bytes) : tlv :=
  let t := genSMPTLV 2 mpis in
  match question with
  | None => t
  | Some q => let v := q ++ [0] ++ tlvValue t in
              {| tlvType := 7; tlvLength := u16 (lenN v); tlvValue := v |}
  end.

(* toSmpMessageN: the first [k] MPIs of the value, if there are at least [k] *)
Definition toSmpMessage (k : nat) (value : bytes) : option (list N) :=
  match ExtractMPIs value with
  | Some (_, mpis) => if (length mpis <? k)%nat then None else Some (firstn k mpis)
  | None => None
  end.

Fixpoint index_nul (b : bytes) : option nat :=
  match b with
  | [] => None
  | 0 :: _ => Some O
  | _ :: r => match index_nul r with Some i => Some (S i) | None => None end
  end.

Definition toSmpMessage1Q (value : bytes) : option (bytes * list N) :=
  match index_nul value with
  | None => None
  | Some i => match toSmpMessage 6 (skipn (S i) value) with
              | Some m => Some (firstn i value, m)
              | None => None
              end
  end.

(* ---------------- DSA public / private key wire form ---------------- *)
Record dsaPub := { dsaP : N; dsaQ : N; dsaG : N; dsaY : N }.

Definition dsaPub_ser (k : dsaPub) : bytes :=
  AppendMPI (AppendMPI (AppendMPI (AppendMPI [0; 0] (dsaP k)) (dsaQ k)) (dsaG k)) (dsaY k).

Definition dsaPub_parse (b : bytes) : option (bytes * dsaPub) :=
  match ExtractShort b with
  | Some (b0, ty) =>
      if negb (ty =? 0) then None else
      match ExtractMPI b0 with None => None | Some (b1, p) =>
      match ExtractMPI b1 with None => None | Some (b2, q) =>
      match ExtractMPI b2 with None => None | Some (b3, g) =>
      match ExtractMPI b3 with None => None | Some (b4, y) =>
        Some (b4, {| dsaP := p; dsaQ := q; dsaG := g; dsaY := y |})
      end end end end
  | None => None
  end.

Definition dsaPriv_ser (k : dsaPub) (x : N) : bytes := AppendMPI (dsaPub_ser k) x.
Definition dsaPriv_parse (b : bytes) : option (bytes * dsaPub * N) :=
  match dsaPub_parse b with
  | Some (r, k) => match ExtractMPI r with Some (r', x) => Some (r', k, x) | None => None end
  | None => None
  end.

(* fingerprint input: serialisation without the two type bytes *)
Definition fingerprint_input (k : dsaPub) : bytes := skipn 2 (dsaPub_ser k).
