(* Mirrors of gotrax_append.go / gotrax_extract.go / gotrax_serialize.go.
   Extract* return [Some (rest, value)] where Go returns (rest, value, true) and
   [None] where Go returns (nil, zero, false). *)
From OTR Require Import Go.Base.
Open Scope N_scope.

Definition AppendShort (l : bytes) (r : N) : bytes := l ++ ser_short r.
Definition AppendWord (l : bytes) (r : N) : bytes := l ++ ser_word r.
Definition AppendLong (l : bytes) (r : N) : bytes := l ++ ser_long r.
(* Go: uint32(len(r)) — the wrap is explicit *)
Definition AppendData (l r : bytes) : bytes := AppendWord l (u32 (lenN r)) ++ r.
(* an MPI value is a natural number; big.Int.Bytes() is the minimal big-endian form *)
Definition AppendMPI (l : bytes) (r : N) : bytes := AppendData l (be_bytes r).
Fixpoint AppendMPIs (l : bytes) (rs : list N) : bytes :=
  match rs with [] => l | r :: rs' => AppendMPIs (AppendMPI l r) rs' end.

Definition ExtractByte (d : bytes) : option (bytes * N) :=
  match d with x :: r => Some (r, x) | _ => None end.
Definition ExtractShort (d : bytes) : option (bytes * N) :=
  match d with a :: b :: r => Some (r, de_short a b) | _ => None end.
Definition ExtractWord (d : bytes) : option (bytes * N) :=
  match d with a :: b :: c :: e :: r => Some (r, de_word a b c e) | _ => None end.
Definition ExtractLong (d : bytes) : option (bytes * N) :=
  match d with
  | a :: b :: c :: e :: a' :: b' :: c' :: e' :: r =>
      Some (r, de_word a b c e * 4294967296 + de_word a' b' c' e')
  | _ => None end.

Definition ExtractData (d : bytes) : option (bytes * bytes) :=
  match ExtractWord d with
  | Some (r, len) =>
      if lenN r <? len then None
      else Some (skipn (N.to_nat len) r, firstn (N.to_nat len) r)
  | None => None
  end.

Definition ExtractFixedData (d : bytes) (l : N) : option (bytes * bytes) :=
  if lenN d <? l then None else Some (skipn (N.to_nat l) d, firstn (N.to_nat l) d).

Definition ExtractMPI (d : bytes) : option (bytes * N) :=
  match ExtractData d with
  | Some (r, v) => Some (r, be_val v)
  | None => None
  end.

(* ExtractMPIs after the repair of the attacker-sized allocation: the count is
   refused up front when the remaining input cannot hold that many length words.
   [fuel] is structural: at most one MPI per 4 input bytes. *)
Fixpoint ExtractMPIs_loop (count : nat) (cur : bytes) (acc : list N) : option (bytes * list N) :=
  match count with
  | O => Some (cur, rev acc)
  | S c => match ExtractMPI cur with
           | Some (r, v) => ExtractMPIs_loop c r (v :: acc)
           | None => None
           end
  end.

Definition ExtractMPIs (d : bytes) : option (bytes * list N) :=
  match ExtractWord d with
  | Some (cur, count) =>
      if lenN cur / 4 <? count then None
      else ExtractMPIs_loop (N.to_nat count) cur []
  | None => None
  end.

(* number of pointer slots the Go code allocates for [result] (C13 allocation bound) *)
Definition ExtractMPIs_alloc (d : bytes) : N :=
  match ExtractWord d with
  | Some (cur, count) => if lenN cur / 4 <? count then 0 else count
  | None => 0
  end.
