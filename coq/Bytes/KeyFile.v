(* Mirror of the libotr key-file layer of /repo/keys.go above the s-expression reader:
     exportAccounts / exportAccount / exportName / exportProtocol / exportPrivateKey / exportDSAPrivateKey / exportParameter,
     ImportKeys = readAccounts / readAccount / readAccountName / readAccountProtocol / readPrivateKey / readDSAPrivateKey /
                  readParameter / readPotentialSymbol / readPotentialBigNum / readPotentialStringOrSymbol / assignParameter,
     DSAPrivateKey.Import (the " #" scanner; after the repair that accepts an odd number of digits).
   A *big.Int is option (bool * N): None is the nil pointer, Some (negative, magnitude) otherwise.
   The bufio.Reader is the list of remaining bytes (as in Bytes/Sexp.v). *)
From OTR Require Import Go.Base Bytes.Strconv Bytes.Sexp.
Open Scope N_scope.

Definition bigint := option (bool * N).
Record dsapriv := { dP : bigint; dQ : bigint; dG : bigint; dY : bigint; dX : bigint }.
Record account := { aName : bytes; aProto : bytes; aKey : dsapriv }.
Definition nokey : dsapriv := {| dP := None; dQ := None; dG := None; dY := None; dX := None |}.

(* ---------------- export ---------------- *)
Definition nl : bytes := [10].
Definition s_nil : bytes := [60; 110; 105; 108; 62].                       (* "<nil>" *)
(* fmt %X of a *big.Int *)
Definition hexnum (v : bigint) : bytes :=
  match v with
  | None => s_nil
  | Some (neg, m) => (if neg then [45] else []) ++ fmt_X m
  end.

Definition ind2 : bytes := [32; 32].
Definition ind4 : bytes := [32; 32; 32; 32].
Definition ind6 : bytes := [32; 32; 32; 32; 32; 32].
Definition ind8 : bytes := [32; 32; 32; 32; 32; 32; 32; 32].
Definition s_privkeys : bytes := [112; 114; 105; 118; 107; 101; 121; 115].   (* "privkeys" *)
Definition s_account : bytes := [97; 99; 99; 111; 117; 110; 116].   (* "account" *)
Definition s_name : bytes := [110; 97; 109; 101].   (* "name" *)
Definition s_protocol : bytes := [112; 114; 111; 116; 111; 99; 111; 108].   (* "protocol" *)
Definition s_private_key : bytes := [112; 114; 105; 118; 97; 116; 101; 45; 107; 101; 121].   (* "private-key" *)
Definition s_dsa : bytes := [100; 115; 97].   (* "dsa" *)

Definition exportParameter (name : N) (v : bigint) : bytes :=
  ind8 ++ 40 :: name :: 32 :: 35 :: hexnum v ++ 35 :: 41 :: nl.
Definition exportDSAPrivateKey (k : dsapriv) : bytes :=
  ind6 ++ 40 :: s_dsa ++ nl ++
  exportParameter 112 (dP k) ++ exportParameter 113 (dQ k) ++ exportParameter 103 (dG k) ++
  exportParameter 121 (dY k) ++ exportParameter 120 (dX k) ++
  ind6 ++ 41 :: nl.
Definition exportPrivateKey (k : dsapriv) : bytes :=
  ind4 ++ 40 :: s_private_key ++ nl ++ exportDSAPrivateKey k ++ ind4 ++ 41 :: nl.
Definition exportName (n : bytes) : bytes := ind4 ++ 40 :: s_name ++ 32 :: 34 :: n ++ 34 :: 41 :: nl.
Definition exportProtocol (n : bytes) : bytes := ind4 ++ 40 :: s_protocol ++ 32 :: n ++ 41 :: nl.
Definition exportAccount (a : account) : bytes :=
  ind2 ++ 40 :: s_account ++ nl ++ exportName (aName a) ++ exportProtocol (aProto a) ++ exportPrivateKey (aKey a) ++
  ind2 ++ 41 :: nl.
Definition exportAccounts (l : list account) : bytes :=
  40 :: s_privkeys ++ nl ++ concat (map exportAccount l) ++ 41 :: nl.

(* ---------------- ImportKeys ---------------- *)
(* sexp.ReadValue; the fuel always suffices (Bytes/SexpProofs.read_total) *)
Definition readValue (l : bytes) : option sx * bool * bytes :=
  match read_value (2 * length l + 4) l with
  | Some r => r
  | None => (None, true, l)
  end.

Definition readPotentialSymbol (l : bytes) : bytes * bool * bytes :=
  let '(v, _, r) := readValue l in
  match v with Some (SSym s) => (s, true, r) | _ => ([], false, r) end.
Definition readPotentialBigNum (l : bytes) : bigint * bool * bytes :=
  let '(v, _, r) := readValue l in
  match v with Some (SNum n) => (n, true, r) | _ => (None, false, r) end.
Definition readPotentialStringOrSymbol (l : bytes) : bytes * bool * bytes :=
  let '(v, _, r) := readValue l in
  match v with Some (SStr s) => (s, true, r) | Some (SSym s) => (s, true, r) | _ => ([], false, r) end.
Definition readSymbolAndExpect (s : bytes) (l : bytes) : bool * bytes :=
  let '(res, ok, r) := readPotentialSymbol l in (ok && bytes_eqb res s, r).

Definition assignParameter (k : dsapriv) (tag : bytes) (v : bigint) : option dsapriv :=
  match tag with
  | [103] => Some {| dP := dP k; dQ := dQ k; dG := v; dY := dY k; dX := dX k |}
  | [112] => Some {| dP := v; dQ := dQ k; dG := dG k; dY := dY k; dX := dX k |}
  | [113] => Some {| dP := dP k; dQ := v; dG := dG k; dY := dY k; dX := dX k |}
  | [120] => Some {| dP := dP k; dQ := dQ k; dG := dG k; dY := dY k; dX := v |}
  | [121] => Some {| dP := dP k; dQ := dQ k; dG := dG k; dY := v; dX := dX k |}
  | _ => None
  end.

(* (tag, value, end, ok, rest) *)
Definition readParameter (l : bytes) : bytes * bigint * bool * bool * bytes :=
  let '(st, l1) := expect 40 l in
  if negb st then ([], None, true, true, l1)
  else
    let '(tag, ok1, l2) := readPotentialSymbol l1 in
    let '(v, ok2, l3) := readPotentialBigNum l2 in
    let '(en, l4) := expect 41 l3 in
    if negb en then ([], None, true, true, l4)
    else (tag, v, false, ok1 && ok2, l4).

(* the loop of readDSAPrivateKey: Some (Some k, rest) when it ends normally, Some (None, rest) when it returns nil, false;
   None: out of fuel (never, every round that goes on consumes a byte) *)
Fixpoint dsa_loop (fuel : nat) (k : dsapriv) (l : bytes) : option (option dsapriv * bytes) :=
  match fuel with
  | O => None
  | S f =>
      let '(tag, v, en, ok, l1) := readParameter l in
      if negb ok then Some (None, l1)
      else if en then Some (Some k, l1)
      else match assignParameter k tag v with
           | Some k' => dsa_loop f k' l1
           | None => Some (None, l1)
           end
  end.

Definition readDSAPrivateKey (l : bytes) : option (option dsapriv * bool * bytes) :=
  let '(_, l1) := expect 40 l in
  let '(ok1, l2) := readSymbolAndExpect s_dsa l1 in
  match dsa_loop (S (length l2)) nokey l2 with
  | None => None
  | Some (None, l3) => Some (None, false, l3)
  | Some (Some k, l3) => let '(ok2, l4) := expect 41 l3 in Some (Some k, ok1 && ok2, l4)
  end.

Definition readPrivateKey (l : bytes) : option (dsapriv * bool * bytes) :=
  let '(_, l1) := expect 40 l in
  let '(ok1, l2) := readSymbolAndExpect s_private_key l1 in
  match readDSAPrivateKey l2 with
  | None => None
  | Some (res, ok2, l3) =>
      let k := match res with Some k => if ok2 then k else nokey | None => nokey end in
      let '(ok3, l4) := expect 41 l3 in
      Some (k, ok1 && ok2 && ok3, l4)
  end.

Definition readAccountName (l : bytes) : bytes * bool * bytes :=
  let '(_, l1) := expect 40 l in
  let '(ok1, l2) := readSymbolAndExpect s_name l1 in
  let '(nm, ok2, l3) := readPotentialStringOrSymbol l2 in
  let '(ok3, l4) := expect 41 l3 in
  (nm, ok1 && ok2 && ok3, l4).
Definition readAccountProtocol (l : bytes) : bytes * bool * bytes :=
  let '(_, l1) := expect 40 l in
  let '(ok1, l2) := readSymbolAndExpect s_protocol l1 in
  let '(nm, ok2, l3) := readPotentialSymbol l2 in
  let '(ok3, l4) := expect 41 l3 in
  (nm, ok1 && ok2 && ok3, l4).

(* (account, ok, atEnd, rest) *)
Definition readAccount (l : bytes) : option (account * bool * bool * bytes) :=
  let '(st, l1) := expect 40 l in
  if negb st then Some ({| aName := []; aProto := []; aKey := nokey |}, true, true, l1)
  else
    let '(ok1, l2) := readSymbolAndExpect s_account l1 in
    let '(nm, ok2, l3) := readAccountName l2 in
    let '(pr, ok3, l4) := readAccountProtocol l3 in
    match readPrivateKey l4 with
    | None => None
    | Some (k, ok4, l5) =>
        let '(ok5, l6) := expect 41 l5 in
        Some ({| aName := nm; aProto := pr; aKey := k |}, ok1 && ok2 && ok3 && ok4 && ok5, false, l6)
    end.

Fixpoint accounts_loop (fuel : nat) (l : bytes) : option (list account * bool * bytes) :=
  match fuel with
  | O => None
  | S f =>
      match readAccount l with
      | None => None
      | Some (a, ok, atEnd, l1) =>
          if atEnd then Some ([], ok, l1)
          else match accounts_loop f l1 with
               | Some (rest, ok2, l2) => Some (a :: rest, ok && ok2, l2)
               | None => None
               end
      end
  end.

Definition readAccounts (l : bytes) : option (list account * bool) :=
  let '(_, l1) := expect 40 l in
  let '(ok1, l2) := readSymbolAndExpect s_privkeys l1 in
  match accounts_loop (S (length l2)) l2 with
  | None => None
  | Some (acs, ok2, l3) => let '(ok3, _) := expect 41 l3 in Some (acs, ok1 && ok2 && ok3)
  end.

(* ImportKeys: None = out of fuel (never), Some None = the error, Some (Some l) = the accounts *)
Definition importKeys (l : bytes) : option (option (list account)) :=
  match readAccounts l with
  | None => None
  | Some (acs, ok) => Some (if ok then Some acs else None)
  end.

(* ---------------- DSAPrivateKey.Import ---------------- *)
Definition notHex (c : N) : bool := match hex_val c with Some _ => false | None => true end.
(* in[:end], in[end:] for end = bytes.IndexFunc(in, notHex); None when there is no such byte *)
Fixpoint span_hex (l : bytes) : option (bytes * bytes) :=
  match l with
  | [] => None
  | c :: r => if notHex c then Some ([], l)
              else match span_hex r with Some (h, t) => Some (c :: h, t) | None => None end
  end.
Definition hex_value (h : bytes) : N :=
  match parse_digits hex_val 16 0 h with Some v => v | None => 0 end.

(* one round of the loop: the number after the next " #" and what follows its digits *)
Definition import_num (l : bytes) : option (N * bytes) :=
  match index l [32; 35] with
  | None => None
  | Some i =>
      match span_hex (skipn (i + 2) l) with
      | None => None
      | Some (h, t) =>
          let h' := if Nat.odd (length h) then 48 :: h else h in
          Some (hex_value h', t)
      end
  end.
Fixpoint import_nums (k : nat) (l : bytes) : option (list N) :=
  match k with
  | O => Some []
  | S k' => match import_num l with
            | Some (v, t) => match import_nums k' t with Some vs => Some (v :: vs) | None => None end
            | None => None
            end
  end.
(* the five numbers Import assigns to P, Q, G, Y, X (None: it returns false before assigning anything); whether it then
   answers true is g^x mod p = y, which the harness computes with math/big *)
Definition import_priv (l : bytes) : option (list N) := import_nums 5 l.
