(* Round-trip, minimality and length lemmas for the Append/Extract primitives (C17). *)
From OTR Require Import Go.Base Bytes.Wire.
From Coq Require Import ZifyBool ZifyN ZifyNat.
Open Scope N_scope.

Lemma lenN_app {A} (a b : list A) : lenN (a ++ b) = lenN a + lenN b.
Proof. unfold lenN. rewrite app_length. lia. Qed.
Lemma lenN_cons {A} (x : A) a : lenN (x :: a) = 1 + lenN a.
Proof. unfold lenN. simpl length. lia. Qed.
Lemma lenN_nil {A} : lenN (@nil A) = 0. Proof. reflexivity. Qed.

(* ---------- words ---------- *)
Lemma ExtractShort_ser n t : n < 65536 -> ExtractShort (ser_short n ++ t) = Some (t, n).
Proof. intros H. unfold ser_short, ExtractShort, de_short. simpl. f_equal. f_equal. lia. Qed.

Lemma ExtractWord_ser n t : n < 4294967296 -> ExtractWord (ser_word n ++ t) = Some (t, n).
Proof. intros H. unfold ser_word, ExtractWord, de_word. simpl. f_equal. f_equal. lia. Qed.

Lemma ExtractWord_inv d r n : wfb d -> ExtractWord d = Some (r, n) ->
  d = ser_word n ++ r /\ n < 4294967296.
Proof.
  intros W. unfold ExtractWord. destruct d as [|a [|b [|c [|e d]]]]; try discriminate.
  intros E. inversion E; subst. clear E.
  apply wfb_cons in W as [Ha W]. apply wfb_cons in W as [Hb W].
  apply wfb_cons in W as [Hc W]. apply wfb_cons in W as [He W].
  unfold ser_word, de_word. simpl. split; [|lia].
  repeat f_equal; lia.
Qed.

Lemma ExtractShort_inv d r n : wfb d -> ExtractShort d = Some (r, n) ->
  d = ser_short n ++ r /\ n < 65536.
Proof.
  intros W. unfold ExtractShort. destruct d as [|a [|b d]]; try discriminate.
  intros E. inversion E; subst. clear E.
  apply wfb_cons in W as [Ha W]. apply wfb_cons in W as [Hb W].
  unfold ser_short, de_short. simpl. split; [|lia]. repeat f_equal; lia.
Qed.

Lemma de_word_ser n : n < 4294967296 ->
  de_word (n / 16777216 mod 256) (n / 65536 mod 256) (n / 256 mod 256) (n mod 256) = n.
Proof. intros H. unfold de_word. lia. Qed.

Lemma ExtractLong_ser n t : n < 18446744073709551616 -> ExtractLong (ser_long n ++ t) = Some (t, n).
Proof.
  intros H. unfold ser_long, ser_word, ExtractLong. cbn [app].
  rewrite !de_word_ser by lia. f_equal. f_equal. lia.
Qed.

(* ---------- data ---------- *)
Lemma ExtractData_ser r t : lenN r < 4294967296 ->
  ExtractData (AppendData [] r ++ t) = Some (t, r).
Proof.
  intros H. unfold ExtractData, AppendData, AppendWord, u32. rewrite app_nil_l.
  rewrite (N.mod_small (lenN r) 4294967296) by exact H.
  rewrite <- app_assoc, ExtractWord_ser by exact H.
  rewrite lenN_app. destruct (N.ltb_spec (lenN r + lenN t) (lenN r)) as [L|L]; [lia|].
  unfold lenN. rewrite Nat2N.id. rewrite firstn_app_exact, skipn_app_exact. reflexivity.
Qed.

Lemma firstn_skipn_len {A} (n : nat) (l : list A) : (n <= length l)%nat -> length (firstn n l) = n.
Proof. intros. apply firstn_length_le. assumption. Qed.

Lemma ExtractData_inv d r v : wfb d -> ExtractData d = Some (r, v) ->
  d = AppendData [] v ++ r /\ lenN v < 4294967296.
Proof.
  intros W. unfold ExtractData. destruct (ExtractWord d) as [[r0 len]|] eqn:E; [|discriminate].
  apply ExtractWord_inv in E as [-> Hl]; [|exact W].
  destruct (N.ltb_spec (lenN r0) len) as [L|L]; [discriminate|].
  intros X. inversion X; subst. clear X.
  assert (Hlen : lenN (firstn (N.to_nat len) r0) = len).
  { unfold lenN in *. rewrite firstn_length_le by lia. lia. }
  split; [|lia].
  unfold AppendData, AppendWord, u32. rewrite Hlen. rewrite (N.mod_small len 4294967296) by exact Hl.
  rewrite app_nil_l, <- app_assoc. f_equal. symmetry. apply firstn_skipn.
Qed.

(* ---------- big-endian numbers ---------- *)
Lemma pow_ge1 a n : a <> 0 -> 1 <= a ^ n.
Proof. intros H. pose proof (N.pow_nonzero a n H). lia. Qed.

Lemma be_val_acc_app a x y : be_val_acc a (x ++ y) = be_val_acc (be_val_acc a x) y.
Proof. revert a; induction x as [|b x IH]; intros a; simpl; [reflexivity | apply IH]. Qed.

Lemma be_val_acc_shift a y : be_val_acc a y = a * 256 ^ lenN y + be_val_acc 0 y.
Proof.
  revert a; induction y as [|b y IH]; intros a.
  - simpl. unfold lenN; simpl. lia.
  - simpl be_val_acc. rewrite IH. rewrite (IH (0 * 256 + b)). rewrite lenN_cons.
    rewrite N.pow_add_r. lia.
Qed.

Lemma be_bytes_fuel_val f : forall n acc, n < 2 ^ N.of_nat f ->
  be_val (be_bytes_fuel f n acc) = n * 256 ^ lenN acc + be_val acc.
Proof.
  unfold be_val. induction f as [|f IH]; intros n acc H.
  - simpl in H. assert (n = 0) by lia. subst. simpl. lia.
  - cbn [be_bytes_fuel]. destruct (N.eqb_spec n 0) as [->|Hn]; [lia|].
    rewrite IH.
    + rewrite lenN_cons. simpl be_val_acc. rewrite (be_val_acc_shift (0*256 + n mod 256)).
      rewrite N.pow_add_r. pose proof (N.div_mod n 256 ltac:(lia)) as D.
      set (P := 256 ^ lenN acc) in *. set (Q := n / 256) in *. set (M := n mod 256) in *.
      change (256 ^ 1) with 256. nia.
    + rewrite Nat2N.inj_succ, N.pow_succ_r' in H.
      apply N.div_lt_upper_bound; [lia|].
      pose proof (pow_ge1 2 (N.of_nat f) ltac:(lia)). nia.
Qed.

Lemma lt_pow2_log2 n : n < 2 ^ N.of_nat (S (N.to_nat (N.log2 n))).
Proof.
  rewrite Nat2N.inj_succ, N2Nat.id. destruct (N.eq_dec n 0) as [->|H]; [simpl; lia|].
  apply N.log2_spec. lia.
Qed.

Theorem be_val_be_bytes n : be_val (be_bytes n) = n.
Proof.
  unfold be_bytes. rewrite be_bytes_fuel_val by apply lt_pow2_log2.
  unfold be_val; simpl. unfold lenN; simpl. lia.
Qed.

Lemma be_bytes_fuel_wf f : forall n acc, wfb acc -> wfb (be_bytes_fuel f n acc).
Proof.
  induction f as [|f IH]; intros n acc W; cbn [be_bytes_fuel]; [exact W|].
  destruct (N.eqb n 0); [exact W|]. apply IH. apply wfb_cons. split; [lia | exact W].
Qed.
Lemma be_bytes_wf n : wfb (be_bytes n).
Proof. apply be_bytes_fuel_wf, wfb_nil. Qed.

(* minimal form: the first byte, if any, is non-zero *)
Definition no_lead0 (b : bytes) : Prop := match b with 0 :: _ => False | _ => True end.

Lemma be_bytes_fuel_nolead f : forall n acc, n < 2 ^ N.of_nat f ->
  (n = 0 -> no_lead0 acc) -> no_lead0 (be_bytes_fuel f n acc).
Proof.
  induction f as [|f IH]; intros n acc H Hz; cbn [be_bytes_fuel].
  - apply Hz. simpl in H. lia.
  - destruct (N.eqb_spec n 0) as [->|Hn]; [apply Hz; reflexivity|].
    apply IH.
    + rewrite Nat2N.inj_succ, N.pow_succ_r' in H.
      apply N.div_lt_upper_bound; [lia|].
      pose proof (pow_ge1 2 (N.of_nat f) ltac:(lia)). nia.
    + intros Hq. simpl. destruct (n mod 256) eqn:E; [|exact I].
      exfalso. pose proof (N.div_mod n 256 ltac:(lia)). lia.
Qed.

Theorem be_bytes_minimal n : no_lead0 (be_bytes n).
Proof. unfold be_bytes. apply be_bytes_fuel_nolead; [apply lt_pow2_log2 | intros; exact I]. Qed.

Lemma be_val_strip0 b : be_val (strip0 b) = be_val b.
Proof.
  unfold be_val. induction b as [|x b IH]; [reflexivity|].
  destruct x; simpl; [exact IH | reflexivity].
Qed.

(* a well-formed byte string without leading zero is the canonical form of its value *)
Lemma be_val_lower b x : x <> 0 -> be_val (x :: b) >= 256 ^ lenN b.
Proof.
  intros Hx. unfold be_val. simpl. rewrite be_val_acc_shift.
  pose proof (pow_ge1 256 (lenN b) ltac:(lia)). nia.
Qed.
Lemma be_val_upper b : wfb b -> be_val b < 256 ^ lenN b.
Proof.
  unfold be_val. induction b as [|x b IH]; intros W.
  - simpl. unfold lenN; simpl. lia.
  - apply wfb_cons in W as [Hx W]. simpl. rewrite be_val_acc_shift, lenN_cons, N.pow_add_r.
    specialize (IH W). change (256 ^ 1) with 256. nia.
Qed.

Lemma canonical_unique a b : wfb a -> wfb b -> no_lead0 a -> no_lead0 b ->
  be_val a = be_val b -> a = b.
Proof.
  assert (Hlen : forall a b, wfb a -> wfb b -> no_lead0 a -> no_lead0 b ->
                 be_val a = be_val b -> lenN a <= lenN b).
  { intros a0 b0 Wa Wb Na Nb E.
    destruct a0 as [|x a0]; [unfold lenN; simpl; lia|].
    assert (x <> 0) by (destruct x; simpl in Na; [tauto | discriminate]).
    pose proof (be_val_lower a0 x H) as L. pose proof (be_val_upper b0 Wb) as U.
    rewrite E in L. rewrite lenN_cons.
    destruct (N.le_gt_cases (1 + lenN a0) (lenN b0)) as [?|G]; [assumption|].
    exfalso. assert (256 ^ lenN b0 <= 256 ^ lenN a0) by (apply N.pow_le_mono_r; lia). lia. }
  intros Wa Wb Na Nb E.
  assert (L : lenN a = lenN b) by (apply N.le_antisymm; [apply Hlen | apply Hlen]; auto).
  clear Hlen Na Nb. revert b Wb E L.
  induction a as [|x a IH]; intros [|y b] Wb E L; try reflexivity;
    try (unfold lenN in L; simpl in L; lia).
  apply wfb_cons in Wa as [Hx Wa]. apply wfb_cons in Wb as [Hy Wb].
  rewrite !lenN_cons in L. assert (L' : lenN a = lenN b) by lia.
  unfold be_val in E. simpl in E. rewrite (be_val_acc_shift (0*256+x)), (be_val_acc_shift (0*256+y)) in E.
  rewrite L' in E. pose proof (be_val_upper a Wa) as Ua. pose proof (be_val_upper b Wb) as Ub.
  unfold be_val in Ua, Ub. rewrite L' in Ua.
  set (P := 256 ^ lenN b) in *. assert (x = y) by nia. subst y.
  f_equal. apply IH; auto. unfold be_val. nia.
Qed.

Lemma no_lead0_strip0 b : no_lead0 (strip0 b).
Proof. induction b as [|x b IH]; simpl; [exact I|]. destruct x; simpl; [exact IH | exact I]. Qed.
Lemma wfb_strip0 b : wfb b -> wfb (strip0 b).
Proof. induction b as [|x b IH]; intros W; simpl; [exact W|]. destruct x; [|exact W].
  apply IH. apply wfb_cons in W; tauto. Qed.

Theorem be_bytes_be_val b : wfb b -> be_bytes (be_val b) = strip0 b.
Proof.
  intros W. apply canonical_unique.
  - apply be_bytes_wf. - apply wfb_strip0, W. - apply be_bytes_minimal. - apply no_lead0_strip0.
  - rewrite be_val_be_bytes, be_val_strip0. reflexivity.
Qed.

(* ---------- MPI ---------- *)
Definition mpi_ok (n : N) : Prop := lenN (be_bytes n) < 4294967296.

Theorem ExtractMPI_ser n t : mpi_ok n -> ExtractMPI (AppendMPI [] n ++ t) = Some (t, n).
Proof.
  intros H. unfold ExtractMPI, AppendMPI. rewrite ExtractData_ser by exact H.
  rewrite be_val_be_bytes. reflexivity.
Qed.

Theorem ExtractMPI_inv d r n : wfb d -> ExtractMPI d = Some (r, n) ->
  exists v, d = AppendData [] v ++ r /\ be_val v = n /\ be_bytes n = strip0 v /\
            lenN v < 4294967296.
Proof.
  intros W. unfold ExtractMPI. destruct (ExtractData d) as [[r0 v]|] eqn:E; [|discriminate].
  intros X; inversion X; subst. clear X.
  apply ExtractData_inv in E as [-> Hl]; [|exact W].
  exists v. split; [reflexivity|]. split; [reflexivity|]. split; [|exact Hl].
  apply be_bytes_be_val. apply wfb_app in W as [W _].
  unfold AppendData, AppendWord in W. apply wfb_app in W as [_ W]. exact W.
Qed.

Lemma lenN_strip0_le v : lenN (strip0 v) <= lenN v.
Proof.
  induction v as [|x v IH]; [simpl; lia|]. destruct x; simpl strip0; [|lia].
  rewrite lenN_cons. lia.
Qed.

(* re-serialising a parsed MPI and parsing again gives the same value (C17, second half) *)
Theorem ExtractMPI_reser d r n t : wfb d -> ExtractMPI d = Some (r, n) ->
  ExtractMPI (AppendMPI [] n ++ t) = Some (t, n).
Proof.
  intros W E. apply ExtractMPI_ser.
  destruct (ExtractMPI_inv _ _ _ W E) as [v [_ [_ [Hs Hl]]]].
  unfold mpi_ok. rewrite Hs. pose proof (lenN_strip0_le v). lia.
Qed.

(* ---------- MPI lists ---------- *)
Lemma AppendMPIs_app l ns : AppendMPIs l ns = l ++ AppendMPIs [] ns.
Proof.
  revert l; induction ns as [|n ns IH]; intros l; simpl; [rewrite app_nil_r; reflexivity|].
  rewrite IH. rewrite (IH (AppendMPI [] n)). unfold AppendMPI, AppendData, AppendWord.
  simpl. rewrite <- !app_assoc. reflexivity.
Qed.

Lemma ExtractMPIs_loop_ser ns : forall t acc, Forall mpi_ok ns ->
  ExtractMPIs_loop (length ns) (AppendMPIs [] ns ++ t) acc = Some (t, rev acc ++ ns).
Proof.
  induction ns as [|n ns IH]; intros t acc F; simpl.
  - rewrite app_nil_r. reflexivity.
  - inversion F; subst. rewrite AppendMPIs_app, <- app_assoc, ExtractMPI_ser by assumption.
    rewrite IH by assumption. simpl. rewrite <- app_assoc. reflexivity.
Qed.

Lemma AppendMPIs_len_ge ns : 4 * lenN ns <= lenN (AppendMPIs [] ns).
Proof.
  induction ns as [|n ns IH]; [unfold lenN; simpl; lia|].
  simpl. rewrite AppendMPIs_app, lenN_app, lenN_cons.
  unfold AppendMPI, AppendData, AppendWord. rewrite !lenN_app. simpl app.
  unfold ser_word. rewrite !lenN_cons, lenN_nil. lia.
Qed.

Definition ser_mpis (ns : list N) : bytes := AppendMPIs (AppendWord [] (u32 (lenN ns))) ns.

Theorem ExtractMPIs_ser ns t : lenN ns < 4294967296 -> Forall mpi_ok ns ->
  ExtractMPIs (ser_mpis ns ++ t) = Some (t, ns).
Proof.
  intros L F. unfold ExtractMPIs, ser_mpis. rewrite AppendMPIs_app. unfold AppendWord, u32.
  rewrite app_nil_l. rewrite (N.mod_small (lenN ns) 4294967296) by exact L.
  rewrite <- app_assoc, ExtractWord_ser by exact L.
  pose proof (AppendMPIs_len_ge ns). rewrite lenN_app.
  destruct (N.ltb_spec ((lenN (AppendMPIs [] ns) + lenN t) / 4) (lenN ns)) as [X|X].
  - exfalso. assert (lenN ns <= (lenN (AppendMPIs [] ns) + lenN t) / 4); [|lia].
    apply N.div_le_lower_bound; lia.
  - unfold lenN at 1. rewrite Nat2N.id. rewrite ExtractMPIs_loop_ser by exact F. reflexivity.
Qed.

(* allocation performed by ExtractMPIs is bounded by the input length (C13) *)
Theorem ExtractMPIs_alloc_bound d : ExtractMPIs_alloc d <= lenN d / 4.
Proof.
  unfold ExtractMPIs_alloc. destruct (ExtractWord d) as [[cur count]|] eqn:E; [|lia].
  destruct (N.ltb_spec (lenN cur / 4) count); [lia|].
  unfold ExtractWord in E. destruct d as [|a [|b [|c [|e d]]]]; try discriminate.
  inversion E; subst. rewrite !lenN_cons.
  transitivity (lenN cur / 4); [assumption|]. apply N.div_le_mono; lia.
Qed.
