(* base64 / envelope round trip (used by C15 extract_tags_correct, C13) *)
From OTR Require Import Go.Base Gen.Consts Bytes.B64 Bytes.WireProofs.
From Coq Require Import ZifyBool ZifyN ZifyNat.
Open Scope N_scope.

Lemma b64_val_char v : v < 64 -> b64_val (b64_char v) = Some v.
Proof.
  intros H. unfold b64_val, b64_char.
  destruct (N.ltb_spec v 26).
  { destruct (N.leb_spec 65 (65 + v)); [|lia]. destruct (N.leb_spec (65 + v) 90); [|lia]. cbn [andb]. f_equal; lia. }
  destruct (N.ltb_spec v 52).
  { destruct (N.leb_spec 65 (71 + v)); [|lia]. destruct (N.leb_spec (71 + v) 90); [lia|]. cbn [andb].
    destruct (N.leb_spec 97 (71 + v)); [|lia]. destruct (N.leb_spec (71 + v) 122); [|lia]. cbn [andb]. f_equal; lia. }
  destruct (N.ltb_spec v 62).
  { destruct (N.leb_spec 65 (v - 4)); [lia|]. cbn [andb].
    destruct (N.leb_spec 97 (v - 4)); [lia|]. cbn [andb].
    destruct (N.leb_spec 48 (v - 4)); [|lia]. destruct (N.leb_spec (v - 4) 57); [|lia]. cbn [andb]. f_equal; lia. }
  destruct (N.eqb_spec v 62) as [->|]; [reflexivity|].
  assert (v = 63) by lia. subst. reflexivity.
Qed.

Lemma b64dec_quad c1 c2 c3 c4 rest out : c1 < 64 -> c2 < 64 -> c3 < 64 -> c4 < 64 ->
  b64dec (b64_char c1 :: b64_char c2 :: b64_char c3 :: b64_char c4 :: rest) [] out =
  b64dec rest [] ((c3 mod 4 * 64 + c4) :: (c2 mod 16 * 16 + c3 / 4) :: (c1 * 4 + c2 / 16) :: out).
Proof.
  intros H1 H2 H3 H4. cbn [b64dec]. rewrite !b64_val_char by assumption. reflexivity.
Qed.

Lemma char_not_special v : v < 64 -> b64_char v <> 61 /\ b64_char v <> 44 /\ b64_char v <> 46.
Proof. intros H. unfold b64_char. repeat (match goal with |- context[if ?b then _ else _] => destruct b eqn:? end); lia. Qed.

Theorem b64_roundtrip : forall n b out, (length b <= n)%nat -> wfb b ->
  b64dec (b64encode b) [] out = Some (rev out ++ b).
Proof.
  induction n as [|n IH]; intros b out L W.
  { destruct b; [|simpl in L; lia]. simpl. rewrite app_nil_r. reflexivity. }
  destruct b as [|x [|y [|z r]]].
  - simpl. rewrite app_nil_r. reflexivity.
  - apply wfb_cons in W as [Hx _]. cbn [b64encode b64dec].
    rewrite !b64_val_char by lia. change (b64_val 61) with (@None N). change (is_nl 61) with false.
    change (61 =? 61) with true. cbn [skip_nl]. change (is_nl 61) with false. cbn iota. cbn [skip_nl].
    f_equal. cbn [rev]. f_equal. f_equal. lia.
  - apply wfb_cons in W as [Hx W]. apply wfb_cons in W as [Hy _]. cbn [b64encode b64dec].
    rewrite !b64_val_char by lia. change (b64_val 61) with (@None N). change (is_nl 61) with false.
    change (61 =? 61) with true. cbn [skip_nl].
    f_equal. cbn [rev]. rewrite <- !app_assoc. cbn [app]. f_equal. f_equal; [lia|]. f_equal. lia.
  - apply wfb_cons in W as [Hx W]. apply wfb_cons in W as [Hy W]. apply wfb_cons in W as [Hz W].
    cbn [b64encode]. rewrite b64dec_quad by lia.
    rewrite IH by (auto; simpl in L; lia). cbn [rev]. rewrite <- !app_assoc. cbn [app].
    f_equal. f_equal. f_equal; [lia|]. f_equal; [lia|]. f_equal. lia.
Qed.
