(* Mirrors of message_type.go, query.go (parsing part), whitespace.go, policy.go. *)
From OTR Require Import Go.Base Gen.Consts Bytes.Strconv.
Open Scope N_scope.

(* ---- policies ---- *)
Definition has (p c : N) : bool := N.land p c =? c.
Definition isOTREnabled (p : N) : bool := has p c_allowV2 || has p c_allowV3.

(* ---- whitespace tags ---- *)
(* fmt "%08s" of the binary digits, '0' -> ' ', '1' -> '\t' *)
Definition ws_of_byte (v : N) : bytes :=
  map (fun d => if d =? 0 then 32 else 9) (pad_left 8 0 (digits 2 v)).
Definition convertToWhitespace (s : bytes) : bytes := concat (map ws_of_byte s).

Definition whitespaceTagHeader : bytes := convertToWhitespace [79; 84].       (* "OT" *)
Definition wsTagV2 : bytes := convertToWhitespace [50].                        (* "2" *)
Definition wsTagV3 : bytes := convertToWhitespace [51].                        (* "3" *)

Definition genWhitespaceTag (p : N) : bytes :=
  whitespaceTagHeader ++ (if has p c_allowV2 then wsTagV2 else []) ++ (if has p c_allowV3 then wsTagV3 else []).

Definition is_white (c : N) : bool := (c =? 32) || (c =? 9).

Definition nextAllWhite (d : bytes) : option (bytes * bytes) :=
  if (length d <? 8)%nat then None
  else if forallb is_white (firstn 8 d) then Some (firstn 8 d, skipn 8 d) else None.

(* versions as the bit set 1<<v *)
Fixpoint eat_tags (fuel : nat) (d : bytes) (versions : N) : bytes * N :=
  match fuel with
  | O => (d, versions)
  | S f =>
      match nextAllWhite d with
      | None => (d, versions)
      | Some (aw, r) =>
          let versions' := if bytes_eqb aw wsTagV3 then N.lor versions 8
                           else if bytes_eqb aw wsTagV2 then N.lor versions 4 else versions in
          eat_tags f r versions'
      end
  end.

(* extractWhitespaceTag: only called when the header occurs in the message *)
Definition extractWhitespaceTag (message : bytes) : R (bytes * N) :=
  match index message whitespaceTagHeader with
  | None => Panic                                   (* wsPos = -1: message[:-1] *)
  | Some pos =>
      let cur := skipn (pos + length whitespaceTagHeader) message in
      let '(rest, versions) := eat_tags (length cur) cur 0 in
      Ok (firstn pos message ++ rest, versions)
  end.

(* ---- guessMessageType ---- *)
Fixpoint guess_from (tbl : list (bytes * N)) (msg : bytes) : N :=
  match tbl with
  | [] => c_msgGuessUnknown
  | (p, g) :: t => if is_prefix p msg then g else guess_from t msg
  end.

Definition guessMessageType (msg : bytes) : N :=
  if is_prefix v_queryMarker msg then guess_from guess_table msg
  else if contains msg whitespaceTagHeader then c_msgGuessTaggedPlaintext
  else c_msgGuessNotOTR.

(* ---- query messages ---- *)
(* parseOTRQueryMessage: list of offered versions (1 for "?OTR?", then the digits after 'v') *)
Fixpoint query_digits (b : bytes) : list N :=
  match b with
  | [] => []
  | c :: r => if c =? 63 then []
              else match dec_val c with Some d => d :: query_digits r | None => query_digits r end
  end.

Definition parseOTRQueryMessage (msg : bytes) : list N :=
  if is_prefix v_queryMarker msg && (length v_queryMarker <? length msg)%nat then
    let versions := skipn (length v_queryMarker) msg in
    let '(ret, versions) := match versions with
                            | 63 :: r => ([1], r)
                            | _ => ([], versions)
                            end in
    match versions with
    | 118 :: _ => ret ++ query_digits versions
    | _ => ret
    end
  else [].

Definition extractVersionsFromQueryMessage (p : N) (msg : bytes) : N :=
  fold_left (fun acc v =>
               if (v =? 3) && has p c_allowV3 then N.lor acc 8
               else if (v =? 2) && has p c_allowV2 then N.lor acc 4 else acc)
            (parseOTRQueryMessage msg) 0.

Definition QueryMessage (p : N) (friendly : bytes) : bytes :=
  [63; 79; 84; 82; 118] ++ (if has p c_allowV2 then [50] else []) ++ (if has p c_allowV3 then [51] else [])
  ++ (match friendly with [] => [63] | _ => [63; 32] ++ friendly end).

(* commitToVersionFrom: highest allowed offered version, 0 = unsupported *)
Definition pickVersion (p versions : N) : N :=
  if has p c_allowV3 && negb (N.land versions 8 =? 0) then 3
  else if has p c_allowV2 && negb (N.land versions 4 =? 0) then 2
  else 0.
