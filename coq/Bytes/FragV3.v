(* Receiving side of fragmentation for a version 3 conversation: otrV3.parseFragmentPrefix (layout of the 23-byte prefix,
   then verifyInstanceTags) followed by the same reassembly as for version 2 (Bytes/Frag.v).  The state is the fragment
   context together with the peer instance the conversation is bound to (0: not bound yet); [our] is our own tag. *)
From OTR Require Import Go.Base Gen.Consts Bytes.Strconv Bytes.Frag.
Open Scope N_scope.

(* verifyInstanceTags says neither "malformed" nor "for another instance" *)
Definition tags_accept (our their st rt : N) : bool :=
  negb ((0 <? rt) && (rt <? c_minValidInstanceTag)) && negb (st <? c_minValidInstanceTag) &&
  negb ((negb (rt =? 0) && negb (our =? rt)) || (negb (their =? 0) && negb (their =? st))).

Definition receiveFragmentV3 (our : N) (s : fragctx * N) (msg : bytes) : (fragctx * N) * option bytes :=
  let '(c, their) := s in
  match v3FragmentTags msg with
  | None => (s, None)
  | Some (st, rt) =>
      if negb (tags_accept our their st rt) then (s, None)
      else
        match parseFragment (skipn 23 msg) with
        | None => (s, None)                                   (* rejected: also the binding it made is undone *)
        | Some (d, ix, len) =>
            let their' := if their =? 0 then st else their in   (* the first accepted message binds *)
            let c' := frag_apply c d ix len in
            if fragmentsFinished c' then ((fc_empty, their'), Some (fc_frag c')) else ((c', their'), None)
        end
  end.

Fixpoint run_recv_v3 (our : N) (s : fragctx * N) (msgs : list bytes) : (fragctx * N) * list bytes :=
  match msgs with
  | [] => (s, [])
  | m :: r => let '(s', d) := receiveFragmentV3 our s m in
              let '(s'', ds) := run_recv_v3 our s' r in
              (s'', match d with Some x => x :: ds | None => ds end)
  end.
