(* Mirror of fragmentation.go (+ fragment prefixes of otrv2.go / otrv3.go, ExtractInstanceTags)
   after the repairs of the 16-bit arithmetic, the completed-context re-run and bytesToUint16. *)
From OTR Require Import Go.Base Gen.Consts Bytes.Wire Bytes.Strconv Bytes.B64.
Open Scope N_scope.

Definition comma : N := 44.
Definition bar : N := 124.

(* fmt.Sprintf("%s%05d,%05d,", "?OTR,", n+1, total) *)
Definition fragPrefixV2 (n total : N) : bytes :=
  v_otrv2FragmentationPrefix ++ fmt_d 5 (n + 1) ++ [comma] ++ fmt_d 5 total ++ [comma].
(* fmt.Sprintf("%s%08x|%08x,%05d,%05d,", "?OTR|", itags, itagr, n+1, total) *)
Definition fragPrefixV3 (n total itags itagr : N) : bytes :=
  v_otrv3FragmentationPrefix ++ fmt_x 8 itags ++ [bar] ++ fmt_x 8 itagr ++ [comma] ++
  fmt_d 5 (n + 1) ++ [comma] ++ fmt_d 5 total ++ [comma].

Definition fragPrefix (v3 : bool) (n total itags itagr : N) : bytes :=
  if v3 then fragPrefixV3 n total itags itagr else fragPrefixV2 n total.

(* data[i*rf : min((i+1)*rf, l)] *)
Definition fragmentData (data : bytes) (i rf : nat) : bytes :=
  firstn (Nat.min ((i + 1) * rf) (length data) - i * rf) (skipn (i * rf) data).

Fixpoint frag_pieces (v3 : bool) (itags itagr : N) (data : bytes) (rf num : nat) (i : nat) (todo : nat)
  : list bytes :=
  match todo with
  | O => []
  | S t => (fragPrefix v3 (N.of_nat i) (N.of_nat num) itags itagr ++ fragmentData data i rf ++ [comma])
           :: frag_pieces v3 itags itagr data rf num (S i) t
  end.

Definition fragment (v3 : bool) (itags itagr : N) (data : bytes) (fraglen : N) : list bytes :=
  let l := length data in
  if (lenN data <=? fraglen) || (fraglen =? 0) then [data]
  else
    let hdr := length (fragPrefix v3 1 1 itags itagr) in
    if (N.to_nat fraglen <=? hdr + 1)%nat then [data]
    else
      let rf := (N.to_nat fraglen - hdr - 1)%nat in
      let num := (l / rf + 1)%nat in
      frag_pieces v3 itags itagr data rf num 0 num.

(* ---- receiving side ---- *)
Record fragctx := { fc_frag : bytes; fc_index : N; fc_len : N }.
Definition fc_empty : fragctx := {| fc_frag := []; fc_index := 0; fc_len := 0 |}.

Definition fragmentsFinished (c : fragctx) : bool := (0 <? fc_index c) && (fc_index c =? fc_len c).

(* parseFragment: exactly four comma separated parts; the fourth is not looked at *)
Definition parseFragment (body : bytes) : option (bytes * N * N) :=
  match split comma body with
  | [p0; p1; p2; _] =>
      match bytesToUint16 p0, bytesToUint16 p1 with
      | Some ix, Some len => Some (p2, ix, len)
      | _, _ => None
      end
  | _ => None
  end.

Inductive frag_action := FDiscard | FRestart | FAppend | FForget.

Definition frag_classify (c : fragctx) (ix len : N) : frag_action :=
  if (ix =? 0) || (len =? 0) || (len <? ix) then FDiscard
  else if ix =? 1 then FRestart
  else if (u16 (fc_index c + 1) =? ix) && (fc_len c =? len) then FAppend
  else FForget.

Definition frag_apply (c : fragctx) (data : bytes) (ix len : N) : fragctx :=
  match frag_classify c ix len with
  | FDiscard => c
  | FRestart => {| fc_frag := data; fc_index := ix; fc_len := len |}
  | FAppend => {| fc_frag := fc_frag c ++ data; fc_index := ix; fc_len := len |}
  | FForget => fc_empty
  end.

(* layout part of otrV3.parseFragmentPrefix: sender and receiver tag of a v3 fragment *)
Definition v3FragmentTags (data : bytes) : option (N * N) :=
  if (length data <? 23)%nat then None
  else
    let header := firstn 23 data in
    match split comma header with
    | headerPart :: _ =>
        match split bar headerPart with
        | _ :: s :: r :: _ =>
            match parseItag s, parseItag r with
            | Some st, Some rt => Some (st, rt)
            | _, _ => None
            end
        | _ => None
        end
    | [] => None
    end.

(* one arrival for a v2 conversation (no tags): receiveFragment + the completion step of receiveUnit.
   Result: new context, completed message if any. *)
Definition receiveFragmentV2 (c : fragctx) (msg : bytes) : fragctx * option bytes :=
  if (length msg <? 5)%nat then (c, None)
  else match parseFragment (skipn 5 msg) with
       | None => (c, None)
       | Some (d, ix, len) =>
           let c' := frag_apply c d ix len in
           if fragmentsFinished c' then (fc_empty, Some (fc_frag c')) else (c', None)
       end.

(* ---- ExtractInstanceTags (instance_tags.go) after its repairs ---- *)
Definition otr_colon : bytes := [63; 79; 84; 82; 58].
Definition otr_bar : bytes := [63; 79; 84; 82; 124].

(* returns (ours = receiver tag, theirs = sender tag) *)
Definition ExtractInstanceTags (m : bytes) : R (option (N * N)) :=
  if is_prefix otr_colon m then
    if (length m <=? length v_msgMarker)%nat then Ok None
    else
      match decode m with
      | Panic => Panic
      | Err _ => Ok None
      | Ok msg =>
          if (lenN msg <? c_otrv3HeaderLen) then Ok None
          else match ExtractShort msg with
               | Some (_, ver) =>
                   if negb (ver =? 3) then Ok None
                   else match ExtractWord (skipn (N.to_nat c_messageHeaderPrefix) msg) with
                        | Some (rest, s) =>
                            match ExtractWord rest with
                            | Some (_, r) => Ok (Some (r, s))
                            | None => Ok (Some (0, s))
                            end
                        | None => Ok (Some (0, 0))
                        end
               | None => Ok None
               end
      end
  else if is_prefix otr_bar m then
    match v3FragmentTags m with
    | Some (s, r) => Ok (Some (r, s))
    | None => Ok None
    end
  else Ok None.
