(* Round-trip theorems for the message structures of Bytes/Msgs.v (C17, C02 mac range). *)
From OTR Require Import Go.Base Bytes.Wire Bytes.WireProofs Bytes.Msgs.
From Coq Require Import ZifyBool ZifyN ZifyNat.
Open Scope N_scope.

Definition sz (b : bytes) : Prop := lenN b < 4294967296.

Lemma AppendData_app l r : AppendData l r = l ++ AppendData [] r.
Proof. unfold AppendData, AppendWord. rewrite app_nil_l, app_assoc. reflexivity. Qed.
Lemma AppendMPI_app l n : AppendMPI l n = l ++ AppendMPI [] n.
Proof. unfold AppendMPI. apply AppendData_app. Qed.
Lemma AppendWord_app l n : AppendWord l n = l ++ ser_word n.
Proof. reflexivity. Qed.
Lemma AppendShort_app l n : AppendShort l n = l ++ ser_short n.
Proof. reflexivity. Qed.

(* ---------- AKE messages ---------- *)
Theorem dhCommit_roundtrip c t : sz (encryptedGx c) -> sz (yhashedGx c) ->
  dhCommit_deser (dhCommit_ser c ++ t) = Some c.
Proof.
  intros H1 H2. unfold dhCommit_deser, dhCommit_ser.
  rewrite (AppendData_app (AppendData [] _)), <- app_assoc, ExtractData_ser by exact H1.
  rewrite ExtractData_ser by exact H2. destruct c; reflexivity.
Qed.

Theorem dhKey_roundtrip gy t : mpi_ok gy -> dhKey_deser (dhKey_ser gy ++ t) = Some gy.
Proof. intros H. unfold dhKey_deser, dhKey_ser. rewrite ExtractMPI_ser by exact H. reflexivity. Qed.

(* the encrypted signature is sent length-prefixed and received as its content;
   the MAC is cut to 20 bytes and must be the whole rest of the message *)
Theorem revealSig_roundtrip r x mac :
  lenN r = 16 -> sz x -> 20 <= lenN mac ->
  revealSig_deser (revealSig_ser {| rs_r := r; rs_encSig := AppendData [] x; rs_mac := mac |}) =
  Some {| rs_r := r; rs_encSig := x; rs_mac := firstn 20 mac |}.
Proof.
  intros Hr Hx Hm. unfold revealSig_deser, revealSig_ser. cbn [rs_r rs_encSig rs_mac].
  rewrite ExtractData_ser by (unfold sz; lia). rewrite ExtractData_ser by exact Hx.
  assert (lenN (firstn 20 mac) = 20) as ->.
  { unfold lenN in *. rewrite firstn_length_le by lia. reflexivity. }
  rewrite Hr. reflexivity.
Qed.

Theorem sig_roundtrip x mac : sz x -> 20 <= lenN mac ->
  sig_deser (sig_ser {| sg_encSig := AppendData [] x; sg_mac := mac |}) =
  Some {| sg_encSig := x; sg_mac := firstn 20 mac |}.
Proof.
  intros Hx Hm. unfold sig_deser, sig_ser. cbn [sg_encSig sg_mac].
  rewrite ExtractData_ser by exact Hx.
  assert (lenN (firstn 20 mac) = 20) as ->.
  { unfold lenN in *. rewrite firstn_length_le by lia. reflexivity. }
  reflexivity.
Qed.

(* ---------- TLV ---------- *)
Definition tlv_ok (t : tlv) : Prop :=
  tlvType t < 65536 /\ tlvLength t = lenN (tlvValue t) /\ tlvLength t < 65536.

Theorem tlv_roundtrip t rest : tlv_ok t -> tlv_deser (tlv_ser t ++ rest) = Some t.
Proof.
  intros [Ht [Hl Hb]]. unfold tlv_deser, tlv_ser.
  rewrite AppendShort_app, AppendShort_app, app_nil_l, <- !app_assoc.
  rewrite ExtractShort_ser by exact Ht. rewrite ExtractShort_ser by exact Hb.
  rewrite lenN_app. destruct (N.ltb_spec (lenN (tlvValue t) + lenN rest) (tlvLength t)); [lia|].
  replace (N.to_nat (tlvLength t)) with (length (tlvValue t)) by (unfold lenN in Hl; lia).
  rewrite firstn_app_exact. destruct t; reflexivity.
Qed.

Lemma tlv_ser_len t : lenN (tlv_ser t) = 4 + lenN (tlvValue t).
Proof. unfold tlv_ser, AppendShort, ser_short. rewrite !lenN_app, !lenN_cons, lenN_nil. simpl app.
  unfold lenN; simpl. lia. Qed.

Lemma skipn_tlv t rest : tlv_ok t ->
  skipn (4 + N.to_nat (tlvLength t)) (tlv_ser t ++ rest) = rest.
Proof.
  intros [_ [Hl _]]. pose proof (tlv_ser_len t) as L.
  replace (4 + N.to_nat (tlvLength t))%nat with (length (tlv_ser t)).
  - apply skipn_app_exact.
  - unfold lenN in *. lia.
Qed.

Lemma tlvs_deser_step f b acc : b <> [] ->
  tlvs_deser (S f) b acc =
  match tlv_deser b with
  | None => None
  | Some t => tlvs_deser f (skipn (4 + N.to_nat (tlvLength t)) b) (t :: acc)
  end.
Proof. destruct b; [congruence | reflexivity]. Qed.
Lemma tlvs_deser_nil f acc : tlvs_deser f [] acc = Some (rev acc).
Proof. destruct f; reflexivity. Qed.

Lemma tlvs_deser_ser ts : forall fuel acc, Forall tlv_ok ts ->
  (length (tlvs_ser ts) <= fuel)%nat ->
  tlvs_deser fuel (tlvs_ser ts) acc = Some (rev acc ++ ts).
Proof.
  induction ts as [|t ts IH]; intros fuel acc F Hf.
  - unfold tlvs_ser. cbn [map concat]. rewrite tlvs_deser_nil, app_nil_r. reflexivity.
  - inversion F as [|? ? Ht F']; subst.
    unfold tlvs_ser in *. cbn [map concat] in *.
    pose proof (tlv_ser_len t) as L. unfold lenN in L.
    rewrite app_length in Hf.
    destruct fuel as [|fuel]; [lia|].
    rewrite tlvs_deser_step.
    2:{ intros E. apply (f_equal (@length N)) in E. rewrite app_length in E. simpl in E. lia. }
    rewrite tlv_roundtrip by exact Ht. rewrite skipn_tlv by exact Ht.
    rewrite IH; [cbn [rev]; rewrite <- app_assoc; reflexivity | exact F' | lia].
Qed.

(* ---------- plaintext of a data message ---------- *)
Definition nul_free (b : bytes) : Prop := Forall (fun x => x <> 0) b.

Lemma split_nul_app m rest : nul_free m -> split_nul (m ++ 0 :: rest) = (m, Some rest).
Proof.
  induction m as [|x m IH]; intros F; [reflexivity|].
  inversion F; subst. simpl. destruct x; [congruence|]. rewrite IH by assumption. reflexivity.
Qed.

Theorem plainDataMsg_roundtrip c : nul_free (pm_message c) -> Forall tlv_ok (pm_tlvs c) ->
  plainDataMsg_deser (plainDataMsg_ser c) = Some c.
Proof.
  intros Hm Ht. unfold plainDataMsg_deser, plainDataMsg_ser. cbn [app].
  rewrite split_nul_app by exact Hm.
  rewrite tlvs_deser_ser by (auto). destruct c; reflexivity.
Qed.

(* user text always comes back unchanged through pad+serialize / deserialize (C04 building block) *)
Lemma pad_tlv_ok n : tlv_ok {| tlvType := 0; tlvLength := u16 (pad_len n);
                               tlvValue := repeat 0 (N.to_nat (pad_len n)) |}.
Proof.
  unfold tlv_ok, pad_len, paddingGranularity, u16. cbn [tlvType tlvLength tlvValue].
  unfold lenN. rewrite repeat_length. lia.
Qed.

Theorem plainDataMsg_pad_roundtrip c : nul_free (pm_message c) -> Forall tlv_ok (pm_tlvs c) ->
  plainDataMsg_deser (plainDataMsg_ser (plainDataMsg_pad c)) = Some (plainDataMsg_pad c).
Proof.
  intros Hm Ht. apply plainDataMsg_roundtrip; unfold plainDataMsg_pad; cbn [pm_message pm_tlvs].
  - exact Hm.
  - apply Forall_app. split; [exact Ht|]. constructor; [apply pad_tlv_ok | constructor].
Qed.

Theorem pad_multiple c : pm_tlvs c = [] ->
  lenN (plainDataMsg_ser (plainDataMsg_pad c)) mod 256 = 0.
Proof.
  intros E. unfold plainDataMsg_ser, plainDataMsg_pad. cbn [pm_message pm_tlvs]. rewrite E.
  cbn [app]. unfold tlvs_ser. cbn [map concat]. rewrite app_nil_r.
  rewrite lenN_app, lenN_cons, tlv_ser_len. cbn [tlvValue].
  unfold lenN at 2. rewrite repeat_length, N2Nat.id.
  unfold pad_len, paddingGranularity. lia.
Qed.

(* ---------- DSA keys ---------- *)
Definition pub_ok (k : dsaPub) : Prop := mpi_ok (dsaP k) /\ mpi_ok (dsaQ k) /\ mpi_ok (dsaG k) /\ mpi_ok (dsaY k).

Theorem dsaPub_roundtrip k t : pub_ok k -> dsaPub_parse (dsaPub_ser k ++ t) = Some (t, k).
Proof.
  intros [Hp [Hq [Hg Hy]]]. unfold dsaPub_parse, dsaPub_ser.
  rewrite (AppendMPI_app _ (dsaY k)), (AppendMPI_app _ (dsaG k)), (AppendMPI_app _ (dsaQ k)),
    (AppendMPI_app _ (dsaP k)), <- !app_assoc.
  cbn [app ExtractShort]. unfold de_short.
  change (0 * 256 + 0 =? 0) with true. cbn [negb].
  rewrite ExtractMPI_ser by exact Hp. rewrite ExtractMPI_ser by exact Hq.
  rewrite ExtractMPI_ser by exact Hg. rewrite ExtractMPI_ser by exact Hy.
  destruct k; reflexivity.
Qed.

Theorem dsaPriv_roundtrip k x t : pub_ok k -> mpi_ok x ->
  dsaPriv_parse (dsaPriv_ser k x ++ t) = Some (t, k, x).
Proof.
  intros Hk Hx. unfold dsaPriv_parse, dsaPriv_ser. rewrite AppendMPI_app, <- app_assoc.
  rewrite dsaPub_roundtrip by exact Hk. rewrite ExtractMPI_ser by exact Hx. reflexivity.
Qed.

(* ---------- SMP payloads ---------- *)
Theorem smp_payload_roundtrip tp mpis k : length mpis = k -> lenN mpis < 4294967296 ->
  Forall mpi_ok mpis -> toSmpMessage k (tlvValue (genSMPTLV tp mpis)) = Some mpis.
Proof.
  intros Hk Hl F. unfold toSmpMessage, genSMPTLV. cbn [tlvValue].
  pose proof (ExtractMPIs_ser mpis [] Hl F) as E. unfold ser_mpis in E. rewrite app_nil_r in E.
  rewrite E. subst k. rewrite Nat.ltb_irrefl. rewrite firstn_all. reflexivity.
Qed.

Theorem smp_tlv_len_matches tp mpis :
  lenN (tlvValue (genSMPTLV tp mpis)) < 65536 -> tlvLength (genSMPTLV tp mpis) = lenN (tlvValue (genSMPTLV tp mpis)).
Proof. unfold genSMPTLV, u16. cbn [tlvValue tlvLength]. intros H. apply N.mod_small. exact H. Qed.

(* ---------- data message ---------- *)
Definition dm_ok (c : dataMsg) : Prop :=
  dm_flag c < 256 /\ dm_sender c < 4294967296 /\ dm_recipient c < 4294967296 /\ mpi_ok (dm_y c) /\
  lenN (dm_ctr c) = 8 /\ be_val (dm_ctr c) <> 0 /\ sz (dm_enc c) /\ lenN (dm_auth c) = 20 /\
  Forall (fun k => lenN k = 20) (dm_oldmac c) /\ sz (concat (dm_oldmac c)) /\
  dm_cache c = dataMsg_serUnsigned c.

Lemma serUnsigned_shape c :
  dataMsg_serUnsigned c =
  dm_flag c :: ser_word (dm_sender c) ++ ser_word (dm_recipient c) ++ AppendMPI [] (dm_y c) ++
  dm_ctr c ++ AppendData [] (dm_enc c).
Proof.
  unfold dataMsg_serUnsigned. rewrite AppendData_app, AppendMPI_app, !AppendWord_app.
  cbn [app]. rewrite <- !app_assoc. reflexivity.
Qed.

Lemma firstn_len_app {A} (u r : list A) : firstn (length (u ++ r) - length r) (u ++ r) = u.
Proof. rewrite app_length. replace (length u + length r - length r)%nat with (length u) by lia.
  apply firstn_app_exact. Qed.

Lemma deserUnsigned_ser c rest :
  dm_flag c < 256 -> dm_sender c < 4294967296 -> dm_recipient c < 4294967296 -> mpi_ok (dm_y c) ->
  lenN (dm_ctr c) = 8 -> be_val (dm_ctr c) <> 0 -> sz (dm_enc c) ->
  dataMsg_deserUnsigned (dataMsg_serUnsigned c ++ rest) =
  Ok ({| dm_flag := dm_flag c; dm_sender := dm_sender c; dm_recipient := dm_recipient c;
         dm_y := dm_y c; dm_ctr := dm_ctr c; dm_enc := dm_enc c; dm_auth := []; dm_oldmac := [];
         dm_cache := dataMsg_serUnsigned c |}, rest).
Proof.
  intros Hf Hs Hr Hy Hc Hz He.
  assert (Hlen : length (dm_ctr c) = 8%nat) by (unfold lenN in Hc; lia).
  unfold dataMsg_deserUnsigned.
  set (U := dataMsg_serUnsigned c). assert (HU : U = dataMsg_serUnsigned c) by reflexivity.
  rewrite serUnsigned_shape in HU.
  rewrite HU at 1. cbn [app]. rewrite <- !app_assoc.
  rewrite ExtractWord_ser by exact Hs. rewrite ExtractWord_ser by exact Hr.
  rewrite ExtractMPI_ser by exact Hy.
  destruct (N.ltb_spec (lenN (dm_ctr c ++ AppendData [] (dm_enc c) ++ rest)) 8) as [X|X].
  { rewrite lenN_app in X. lia. }
  unfold ctr_val. replace 8%nat with (length (dm_ctr c)) by exact Hlen.
  rewrite firstn_app_exact, skipn_app_exact.
  destruct (N.eqb_spec (be_val (dm_ctr c)) 0) as [E|_]; [contradiction|].
  rewrite ExtractData_ser by exact He.
  rewrite firstn_len_app. reflexivity.
Qed.

Lemma split_keys_concat ks : forall fuel acc, Forall (fun k => lenN k = 20) ks ->
  (length (concat ks) <= fuel)%nat ->
  split_keys fuel (concat ks) acc = Some (rev acc ++ ks).
Proof.
  induction ks as [|k ks IH]; intros fuel acc F Hf.
  - cbn [concat]. destruct fuel; simpl; rewrite app_nil_r; reflexivity.
  - inversion F as [|? ? Hk F']; subst. cbn [concat] in *.
    assert (Hlen : length k = 20%nat) by (unfold lenN in Hk; lia).
    rewrite app_length in Hf.
    destruct fuel as [|fuel]; [lia|].
    assert (Hne : k ++ concat ks <> []).
    { intros E. apply (f_equal (@length N)) in E. rewrite app_length in E. simpl in E. lia. }
    destruct (k ++ concat ks) eqn:E; [congruence|]. rewrite <- E. clear E Hne.
    cbn [split_keys].
    assert (k ++ concat ks = k ++ concat ks) as _ by reflexivity.
    destruct (k ++ concat ks) eqn:E.
    { exfalso. apply (f_equal (@length N)) in E. rewrite app_length in E. simpl in E. lia. }
    rewrite <- E. clear E.
    unfold hashLength. destruct (N.ltb_spec (lenN (k ++ concat ks)) 20) as [X|X].
    { rewrite lenN_app in X. lia. }
    replace 20%nat with (length k) by exact Hlen. rewrite firstn_app_exact, skipn_app_exact.
    rewrite IH; [cbn [rev]; rewrite <- app_assoc; reflexivity | exact F' | lia].
Qed.

Theorem dataMsg_roundtrip c : dm_ok c -> dataMsg_deser (dataMsg_ser c) = Ok c.
Proof.
  intros [Hf [Hs [Hr [Hy [Hc [Hz [He [Ha [Hk [Hks Hcache]]]]]]]]]].
  unfold dataMsg_deser, dataMsg_ser. rewrite AppendData_app, <- app_assoc, Hcache.
  rewrite deserUnsigned_ser by assumption. cbn [bindR].
  assert (Hlen : length (dm_auth c) = 20%nat) by (unfold lenN in Ha; lia).
  unfold hashLength. destruct (N.ltb_spec (lenN (dm_auth c ++ AppendData [] (concat (dm_oldmac c)))) 20) as [X|X].
  { rewrite lenN_app in X. lia. }
  replace 20%nat with (length (dm_auth c)) by exact Hlen. rewrite firstn_app_exact, skipn_app_exact.
  pose proof (ExtractData_ser (concat (dm_oldmac c)) [] Hks) as E. rewrite app_nil_r in E. rewrite E.
  rewrite split_keys_concat by (auto). cbn [rev app dm_flag dm_sender dm_recipient dm_y dm_ctr dm_enc dm_cache].
  destruct c; cbn in *; subst; reflexivity.
Qed.

(* what the MAC covers is exactly the bytes in front of the authenticator (C02) *)
Definition suffix_of (r d : bytes) : Prop := exists pre, d = pre ++ r.
Lemma suffix_refl d : suffix_of d d. Proof. exists []. reflexivity. Qed.
Lemma suffix_trans a b c : suffix_of a b -> suffix_of b c -> suffix_of a c.
Proof. intros [p1 ->] [p2 ->]. exists (p2 ++ p1). rewrite app_assoc. reflexivity. Qed.
Lemma suffix_cons x d : suffix_of d (x :: d). Proof. exists [x]. reflexivity. Qed.
Lemma suffix_skipn n d : suffix_of (skipn n d) d.
Proof. exists (firstn n d). symmetry. apply firstn_skipn. Qed.

Lemma ExtractWord_suffix d r n : ExtractWord d = Some (r, n) -> suffix_of r d.
Proof. unfold ExtractWord. destruct d as [|a [|b [|c [|e d]]]]; try discriminate.
  intros H; inversion H; subst. exists [a; b; c; e]. reflexivity. Qed.
Lemma ExtractData_suffix d r v : ExtractData d = Some (r, v) -> suffix_of r d.
Proof.
  unfold ExtractData. destruct (ExtractWord d) as [[r0 len]|] eqn:E; [|discriminate].
  destruct (lenN r0 <? len); [discriminate|]. intros H; inversion H; subst.
  eapply suffix_trans; [apply suffix_skipn | eapply ExtractWord_suffix; exact E].
Qed.
Lemma ExtractMPI_suffix d r n : ExtractMPI d = Some (r, n) -> suffix_of r d.
Proof. unfold ExtractMPI. destruct (ExtractData d) as [[r0 v]|] eqn:E; [|discriminate].
  intros H; inversion H; subst. eapply ExtractData_suffix; exact E. Qed.

Lemma firstn_suffix r d : suffix_of r d -> d = firstn (length d - length r) d ++ r.
Proof. intros [pre ->]. rewrite firstn_len_app. reflexivity. Qed.

Lemma lenN_firstn20 (l : bytes) : 20 <= lenN l -> lenN (firstn 20 l) = 20.
Proof. unfold lenN. intros H. rewrite firstn_length_le by lia. reflexivity. Qed.

Opaque firstn skipn.
Theorem dataMsg_mac_range b c : dataMsg_deser b = Ok c ->
  exists rest, b = dm_cache c ++ dm_auth c ++ rest /\ lenN (dm_auth c) = 20.
Proof.
  unfold dataMsg_deser. destruct (dataMsg_deserUnsigned b) as [[c0 rest]| |] eqn:E; cbn [bindR]; try discriminate.
  unfold hashLength. destruct (N.ltb_spec (lenN rest) 20) as [X|X]; [discriminate|].
  destruct (ExtractData (skipn 20 rest)) as [[r1 rv]|]; [|discriminate].
  destruct (split_keys (length rv) rv []) as [ks|]; [|discriminate].
  intros H. injection H as <-. cbn [dm_cache dm_auth].
  unfold dataMsg_deserUnsigned in E.
  destruct b as [|flag in0]; [discriminate|].
  destruct (ExtractWord in0) as [[in1 sk]|] eqn:E1; [|discriminate].
  destruct (ExtractWord in1) as [[in2 rk]|] eqn:E2; [|discriminate].
  destruct (ExtractMPI in2) as [[in3 y]|] eqn:E3; [|discriminate].
  destruct (lenN in3 <? 8); [discriminate|].
  destruct (ctr_val in3 =? 0); [discriminate|].
  destruct (ExtractData (skipn 8 in3)) as [[in5 enc]|] eqn:E5; [|discriminate].
  injection E as <- <-. cbn [dm_cache].
  exists (skipn 20 in5). split.
  2:{ apply lenN_firstn20. exact X. }
  rewrite (firstn_skipn 20 in5).
  assert (HS : suffix_of in5 (flag :: in0)); [|exact (firstn_suffix _ _ HS)].
  eapply suffix_trans; [eapply ExtractData_suffix; exact E5|].
  eapply suffix_trans; [apply suffix_skipn|].
  eapply suffix_trans; [eapply ExtractMPI_suffix; exact E3|].
  eapply suffix_trans; [eapply ExtractWord_suffix; exact E2|].
  eapply suffix_trans; [eapply ExtractWord_suffix; exact E1|].
  apply suffix_cons.
Qed.
Transparent firstn skipn.
