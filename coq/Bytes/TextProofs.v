(* C16: version choice, query offers, whitespace-tag removal. *)
From OTR Require Import Go.Base Gen.Consts Bytes.Strconv Bytes.Text Bytes.WireProofs.
From Coq Require Import ZifyBool ZifyN ZifyNat.
Open Scope N_scope.

Definition offered (versions v : N) : bool := negb (N.land versions (2 ^ v) =? 0).

(* the version adopted is the highest one that is both allowed and offered; none -> 0 (error) *)
Theorem pickVersion_highest p versions :
  pickVersion p versions =
  if has p c_allowV3 && offered versions 3 then 3
  else if has p c_allowV2 && offered versions 2 then 2 else 0.
Proof. reflexivity. Qed.

Theorem pickVersion_allowed p versions v : pickVersion p versions = v -> v <> 0 ->
  (v = 3 /\ has p c_allowV3 = true /\ offered versions 3 = true) \/
  (v = 2 /\ has p c_allowV2 = true /\ offered versions 2 = true /\
   (has p c_allowV3 && offered versions 3 = false)).
Proof.
  rewrite pickVersion_highest. intros H Hv.
  destruct (has p c_allowV3 && offered versions 3) eqn:E3.
  - left. apply andb_true_iff in E3. subst. tauto.
  - destruct (has p c_allowV2 && offered versions 2) eqn:E2; [|congruence].
    right. apply andb_true_iff in E2. subst. tauto.
Qed.

(* what a query message generated under policy [p] offers, as read by any peer: exactly p's versions *)
Theorem query_offer p friendly :
  parseOTRQueryMessage (QueryMessage p friendly) =
  (if has p c_allowV2 then [2] else []) ++ (if has p c_allowV3 then [3] else []).
Proof.
  unfold QueryMessage, parseOTRQueryMessage.
  destruct (has p c_allowV2), (has p c_allowV3); destruct friendly; reflexivity.
Qed.

Theorem query_versions p q friendly :
  extractVersionsFromQueryMessage q (QueryMessage p friendly) =
  N.lor (if has p c_allowV3 && has q c_allowV3 then 8 else 0)
        (if has p c_allowV2 && has q c_allowV2 then 4 else 0).
Proof.
  unfold extractVersionsFromQueryMessage. rewrite query_offer.
  destruct (has p c_allowV2), (has p c_allowV3), (has q c_allowV2), (has q c_allowV3); reflexivity.
Qed.

(* whitespace tag removal: if the tag header does not begin earlier than where the tag was appended,
   the text comes back byte-exact and the versions offered are those of the sender's policy *)
Lemma eat_tags_gen p : forall fuel, (24 <= fuel)%nat ->
  eat_tags fuel ((if has p c_allowV2 then wsTagV2 else []) ++ (if has p c_allowV3 then wsTagV3 else [])) 0 =
  ([], N.lor (if has p c_allowV2 then 4 else 0) (if has p c_allowV3 then 8 else 0)).
Proof.
  intros fuel H. do 24 (destruct fuel as [|fuel]; [lia|]).
  destruct (has p c_allowV2), (has p c_allowV3); reflexivity.
Qed.

Theorem whitespace_passthrough t p :
  index (t ++ genWhitespaceTag p) whitespaceTagHeader = Some (length t) ->
  extractWhitespaceTag (t ++ genWhitespaceTag p) =
  Ok (t, N.lor (if has p c_allowV2 then 4 else 0) (if has p c_allowV3 then 8 else 0)).
Proof.
  intros Hi. unfold extractWhitespaceTag. rewrite Hi. unfold genWhitespaceTag.
  rewrite skipn_app.
  assert (Hs : skipn (length t + length whitespaceTagHeader) t = []).
  { apply skipn_all2. lia. }
  rewrite Hs. cbn [app].
  replace (length t + length whitespaceTagHeader - length t)%nat with (length whitespaceTagHeader) by lia.
  rewrite skipn_app_exact.
  set (tags := (if has p c_allowV2 then wsTagV2 else []) ++ (if has p c_allowV3 then wsTagV3 else [])).
  assert (Hl : length tags = length tags) by reflexivity.
  destruct (has p c_allowV2) eqn:E2, (has p c_allowV3) eqn:E3; subst tags; cbn [app];
    rewrite firstn_app_exact;
    match goal with |- context [eat_tags ?f ?d 0] =>
      let r := eval vm_compute in (eat_tags f d 0) in change (eat_tags f d 0) with r end;
    cbn iota; rewrite app_nil_r; reflexivity.
Qed.
