(* Lemmas about number formatting and parsing (used by C14, C15). *)
From OTR Require Import Go.Base Bytes.Strconv Bytes.WireProofs.
From Coq Require Import ZifyBool ZifyN ZifyNat.
Open Scope N_scope.

Fixpoint horner (base acc : N) (ds : list N) : N :=
  match ds with [] => acc | d :: r => horner base (acc * base + d) r end.

Lemma horner_app base acc a b : horner base acc (a ++ b) = horner base (horner base acc a) b.
Proof. revert acc; induction a as [|x a IH]; intros acc; simpl; [reflexivity | apply IH]. Qed.

Lemma horner_shift base acc ds : horner base acc ds = acc * base ^ lenN ds + horner base 0 ds.
Proof.
  revert acc; induction ds as [|d ds IH]; intros acc.
  - simpl. unfold lenN; simpl. lia.
  - simpl horner. rewrite IH, (IH (0 * base + d)), lenN_cons, N.pow_add_r. lia.
Qed.

(* digits: value, digit range, length *)
Lemma digits_fuel_spec base (Hb : 2 <= base) f : forall n acc,
  n < 2 ^ N.of_nat f ->
  horner base 0 (digits_fuel f base n acc) = n * base ^ lenN acc + horner base 0 acc /\
  (Forall (fun d => d < base) acc -> Forall (fun d => d < base) (digits_fuel f base n acc)).
Proof.
  induction f as [|f IH]; intros n acc H.
  - simpl in H. assert (n = 0) by lia. subst. simpl. split; [lia | auto].
  - cbn [digits_fuel]. destruct (N.ltb_spec n base) as [L|L].
    + split.
      * simpl horner. rewrite (horner_shift base (0 * base + n)). lia.
      * intros F. constructor; assumption.
    + assert (Hq : n / base < 2 ^ N.of_nat f).
      { rewrite Nat2N.inj_succ, N.pow_succ_r' in H. apply N.div_lt_upper_bound; [lia|].
        pose proof (pow_ge1 2 (N.of_nat f) ltac:(lia)). nia. }
      destruct (IH (n / base) (n mod base :: acc) Hq) as [V F]. split.
      * rewrite V. simpl horner. rewrite (horner_shift base (0 * base + n mod base)), lenN_cons, N.pow_add_r.
        change (base ^ 1) with (N.pow base 1). rewrite N.pow_1_r.
        pose proof (N.div_mod n base ltac:(lia)). set (P := base ^ lenN acc) in *. nia.
      * intros Fa. apply F. constructor; [apply N.mod_lt; lia | exact Fa].
Qed.

Lemma digits_val base n : 2 <= base -> horner base 0 (digits base n) = n.
Proof.
  intros Hb. unfold digits. destruct (digits_fuel_spec base Hb _ n [] (lt_pow2_log2 n)) as [V _].
  rewrite V. unfold lenN; simpl. lia.
Qed.
Lemma digits_range base n : 2 <= base -> Forall (fun d => d < base) (digits base n).
Proof.
  intros Hb. unfold digits. destruct (digits_fuel_spec base Hb _ n [] (lt_pow2_log2 n)) as [_ F].
  apply F. constructor.
Qed.

(* length bound: n < base^k -> at most k digits (k >= 1) *)
Lemma digits_fuel_len base (Hb : 2 <= base) f : forall n acc k,
  n < base ^ N.of_nat k -> (1 <= k)%nat ->
  (length (digits_fuel f base n acc) <= k + length acc)%nat.
Proof.
  induction f as [|f IH]; intros n acc k H Hk; cbn [digits_fuel]; [lia|].
  destruct (N.ltb_spec n base) as [L|L]; [simpl; lia|].
  destruct k as [|k]; [lia|]. destruct k as [|k].
  { simpl in H. change (base ^ 1) with (N.pow base 1) in H. rewrite N.pow_1_r in H. lia. }
  specialize (IH (n / base) (n mod base :: acc) (S k)).
  simpl length in IH. etransitivity; [apply IH|]; try lia.
  rewrite (Nat2N.inj_succ (S k)), N.pow_succ_r' in H. apply N.div_lt_upper_bound; [lia|]. lia.
Qed.

Lemma digits_len base n k : 2 <= base -> n < base ^ N.of_nat k -> (1 <= k)%nat ->
  (length (digits base n) <= k)%nat.
Proof.
  intros Hb H Hk. unfold digits.
  pose proof (digits_fuel_len base Hb (S (N.to_nat (N.log2 n))) n [] k H Hk). simpl in *. lia.
Qed.

Lemma pad_left_length w c b : (length b <= w)%nat -> length (pad_left w c b) = w.
Proof. intros H. unfold pad_left. rewrite app_length, repeat_length. lia. Qed.

Lemma fmt_d_length w n : n < 10 ^ N.of_nat w -> (1 <= w)%nat -> length (fmt_d w n) = w.
Proof. intros H Hw. unfold fmt_d. apply pad_left_length. rewrite map_length. apply digits_len; auto; lia. Qed.
Lemma fmt_x_length w n : n < 16 ^ N.of_nat w -> (1 <= w)%nat -> length (fmt_x w n) = w.
Proof. intros H Hw. unfold fmt_x. apply pad_left_length. rewrite map_length. apply digits_len; auto; lia. Qed.

(* parsing what was formatted *)
Lemma dec_val_digit d : d < 10 -> dec_val (digit_char d) = Some d.
Proof.
  intros H. unfold dec_val, digit_char. destruct (N.ltb_spec d 10); [|lia].
  destruct (N.leb_spec 48 (48 + d)); [|lia]. destruct (N.leb_spec (48 + d) 57); [|lia].
  cbn [andb]. f_equal. lia.
Qed.
Lemma hex_val_digit d : d < 16 -> hex_val (digit_char d) = Some d.
Proof.
  intros H. unfold hex_val, digit_char. destruct (N.ltb_spec d 10).
  - destruct (N.leb_spec 48 (48 + d)); [|lia]. destruct (N.leb_spec (48 + d) 57); [|lia].
    cbn [andb]. f_equal. lia.
  - destruct (N.leb_spec 48 (87 + d)); [|lia]. destruct (N.leb_spec (87 + d) 57); [lia|].
    cbn [andb]. destruct (N.leb_spec 97 (87 + d)); [|lia]. destruct (N.leb_spec (87 + d) 102); [|lia].
    cbn [andb]. f_equal. lia.
Qed.

Lemma parse_digits_map dv base acc ds :
  (forall d, d < base -> dv (digit_char d) = Some d) -> Forall (fun d => d < base) ds ->
  parse_digits dv base acc (map digit_char ds) = Some (horner base acc ds).
Proof.
  intros Hdv. revert acc; induction ds as [|d ds IH]; intros acc F; [reflexivity|].
  inversion F; subst. simpl. rewrite Hdv by assumption. apply IH; assumption.
Qed.

Lemma parse_digits_zeros dv base n rest acc :
  dv 48 = Some 0 -> parse_digits dv base acc (repeat 48 n ++ rest) = parse_digits dv base (acc * base ^ N.of_nat n) rest.
Proof.
  intros H0. revert acc; induction n as [|n IH]; intros acc.
  - simpl. f_equal. lia.
  - cbn [repeat app parse_digits]. rewrite H0, IH. f_equal. rewrite Nat2N.inj_succ, N.pow_succ_r'. lia.
Qed.

Lemma parse_fmt dv base w n :
  2 <= base -> dv 48 = Some 0 -> (forall d, d < base -> dv (digit_char d) = Some d) ->
  parse_digits dv base 0 (pad_left w 48 (map digit_char (digits base n))) = Some n.
Proof.
  intros Hb H0 Hdv. unfold pad_left. rewrite parse_digits_zeros by exact H0.
  rewrite N.mul_0_l, parse_digits_map; auto using digits_range. rewrite digits_val by exact Hb. reflexivity.
Qed.

Lemma digits_nonempty base n : digits base n <> [].
Proof.
  unfold digits. generalize (N.to_nat (N.log2 n)). intros f.
  assert (G : forall f n acc, digits_fuel (S f) base n acc <> []).
  { clear. induction f as [|f IH]; intros n acc; cbn [digits_fuel].
    - destruct (n <? base); discriminate.
    - destruct (n <? base); [discriminate|]. apply IH. }
  apply G.
Qed.

Lemma digit_char_not_sign d : digit_char d <> 43 /\ digit_char d <> 45.
Proof. unfold digit_char. destruct (d <? 10); lia. Qed.

Lemma fmt_head w n base : exists c r, pad_left w 48 (map digit_char (digits base n)) = c :: r /\ c <> 43 /\ c <> 45.
Proof.
  unfold pad_left. destruct (w - length (map digit_char (digits base n)))%nat as [|k].
  - simpl. pose proof (digits_nonempty base n). destruct (digits base n) as [|d ds]; [congruence|].
    simpl. exists (digit_char d), (map digit_char ds). split; [reflexivity | apply digit_char_not_sign].
  - simpl. eexists _, _. split; [reflexivity | lia].
Qed.

Lemma parse_signed_fmt dv base w n :
  2 <= base -> dv 48 = Some 0 -> (forall d, d < base -> dv (digit_char d) = Some d) ->
  parse_signed dv base (pad_left w 48 (map digit_char (digits base n))) = Some (false, n).
Proof.
  intros Hb H0 Hdv. unfold parse_signed.
  pose proof (parse_fmt dv base w n Hb H0 Hdv) as P.
  destruct (fmt_head w n base) as [c [r [E [N1 N2]]]]. rewrite E in *.
  destruct (N.eqb_spec c 43); [contradiction|]. destruct (N.eqb_spec c 45); [contradiction|].
  rewrite P. reflexivity.
Qed.

Theorem bytesToUint16_fmt w n : n <= 65535 -> bytesToUint16 (fmt_d w n) = Some n.
Proof.
  intros H. unfold bytesToUint16, fmt_d.
  rewrite (parse_signed_fmt dec_val 10 w n ltac:(lia) eq_refl dec_val_digit).
  unfold in_int64, int64_max.
  destruct (N.leb_spec n 9223372036854775807); [|lia]. cbn [negb].
  destruct (N.leb_spec n 65535); [reflexivity | lia].
Qed.

Theorem parseItag_fmt w n : n < 4294967296 -> parseItag (fmt_x w n) = Some n.
Proof.
  intros H. unfold parseItag, fmt_x.
  rewrite (parse_signed_fmt hex_val 16 w n ltac:(lia) eq_refl hex_val_digit).
  unfold in_int64, int64_max.
  destruct (N.leb_spec n 9223372036854775807); [|lia]. cbn [negb]. f_equal. apply N.mod_small. exact H.
Qed.

(* formatted numbers contain neither ',' nor '|' *)
Definition no_sep (b : bytes) : Prop := Forall (fun c => c <> 44 /\ c <> 124) b.

Lemma digit_char_nosep d : d < 16 -> digit_char d <> 44 /\ digit_char d <> 124.
Proof. intros H. unfold digit_char. destruct (d <? 10); lia. Qed.

Lemma fmt_nosep w n base : 2 <= base -> base <= 16 -> no_sep (pad_left w 48 (map digit_char (digits base n))).
Proof.
  intros Hb Hb2. unfold no_sep, pad_left. apply Forall_app. split.
  - apply Forall_forall. intros x Hx. apply repeat_spec in Hx. subst. lia.
  - apply Forall_forall. intros x Hx. apply in_map_iff in Hx as [d [<- Hd]].
    pose proof (digits_range base n Hb) as F. rewrite Forall_forall in F. apply digit_char_nosep.
    specialize (F d Hd). lia.
Qed.

(* bytes.Split on strings that avoid the separator *)
Definition avoids (sep : N) (b : bytes) : Prop := Forall (fun c => c <> sep) b.

Lemma split_on_plain_gen sep a : forall cur, avoids sep a -> split_on sep a cur = [rev cur ++ a].
Proof.
  induction a as [|x a IH]; intros cur F; simpl.
  - rewrite app_nil_r. reflexivity.
  - inversion F; subst. destruct (N.eqb_spec x sep); [contradiction|].
    rewrite IH by assumption. simpl. rewrite <- app_assoc. reflexivity.
Qed.

Lemma split_on_sep_gen sep a rest : forall cur, avoids sep a ->
  split_on sep (a ++ sep :: rest) cur = (rev cur ++ a) :: split_on sep rest [].
Proof.
  induction a as [|x a IH]; intros cur F; simpl.
  - rewrite N.eqb_refl, app_nil_r. reflexivity.
  - inversion F; subst. destruct (N.eqb_spec x sep); [contradiction|].
    rewrite IH by assumption. simpl. rewrite <- app_assoc. reflexivity.
Qed.

Lemma no_sep_avoids b : no_sep b -> avoids 44 b /\ avoids 124 b.
Proof. unfold no_sep, avoids. intros F. split; (eapply Forall_impl; [|exact F]); intros c [H1 H2]; assumption. Qed.
