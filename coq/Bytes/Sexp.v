(* Mirror of /repo/sexp (the s-expression reader behind the libotr key-file import), after the repair of [expect].
   The bufio.Reader with peek / UnreadByte is a list of remaining bytes.  Every reader function returns the value
   (None where Go returns a nil Value) and the remaining input. *)
From OTR Require Import Go.Base.
Open Scope N_scope.

Inductive sx : Type :=
| SNil
| SCons (a : option sx) (b : sx)          (* the first component may be a Go nil (a list/string/number that did not close) *)
| SSym (b : bytes)
| SStr (b : bytes)
| SNum (v : option (bool * N)).           (* (negative, magnitude); None: big.Int.SetString failed (nil *big.Int) *)

Definition isWhitespace (c : N) : bool := (c =? 32) || (c =? 9) || (c =? 10) || (c =? 13).
Definition isNotSymbolCharacter (c : N) : bool := isWhitespace c || (c =? 40) || (c =? 41).

Fixpoint skip_ws (l : bytes) : bytes :=
  match l with
  | c :: r => if isWhitespace c then skip_ws r else l
  | [] => []
  end.

(* expect: skip white space, then consume c if it is next *)
Definition expect (c : N) (l : bytes) : bool * bytes :=
  match skip_ws l with
  | x :: r => if x =? c then (true, r) else (false, x :: r)
  | [] => (false, [])
  end.

(* ReadDataUntil *)
Fixpoint read_until (stop : N -> bool) (l : bytes) : bytes * bytes :=
  match l with
  | c :: r => if stop c then ([], l) else let '(d, rest) := read_until stop r in (c :: d, rest)
  | [] => ([], [])
  end.

(* big.Int.SetString(s, 16): optional sign, then at least one hexadecimal digit and nothing else *)
Definition hexval (c : N) : option N :=
  if (48 <=? c) && (c <=? 57) then Some (c - 48)
  else if (97 <=? c) && (c <=? 102) then Some (c - 87)
  else if (65 <=? c) && (c <=? 70) then Some (c - 55)
  else None.
Fixpoint hex_acc (acc : N) (l : bytes) : option N :=
  match l with
  | [] => Some acc
  | c :: r => match hexval c with Some v => hex_acc (acc * 16 + v) r | None => None end
  end.
Definition parse_hex (l : bytes) : option (bool * N) :=
  let '(neg, digits) := match l with
                        | 45 :: r => (true, r)
                        | 43 :: r => (false, r)
                        | _ => (false, l)
                        end in
  match digits with
  | [] => None
  | _ => match hex_acc 0 digits with
         | Some v => Some (neg && negb (v =? 0), v)
         | None => None
         end
  end.

Definition read_string (l : bytes) : option sx * bytes :=
  let '(ok, l1) := expect 34 l in
  if negb ok then (None, l1)
  else let '(d, l2) := read_until (N.eqb 34) l1 in
       let '(ok2, l3) := expect 34 l2 in
       if ok2 then (Some (SStr d), l3) else (None, l3).
Definition read_bignum (l : bytes) : option sx * bytes :=
  let '(ok, l1) := expect 35 l in
  if negb ok then (None, l1)
  else let '(d, l2) := read_until (N.eqb 35) l1 in
       let '(ok2, l3) := expect 35 l2 in
       if ok2 then (Some (SNum (parse_hex d)), l3) else (None, l3).
Definition read_symbol (l : bytes) : option sx * bytes :=
  let '(d, l1) := read_until isNotSymbolCharacter (skip_ws l) in (Some (SSym d), l1).

(* ReadValue / ReadList / ReadListItem are mutually recursive; [fuel] bounds the recursion depth + list length.
   Result of read_value: (value, end?, rest). *)
Fixpoint read_value (fuel : nat) (l : bytes) : option (option sx * bool * bytes) :=
  match fuel with
  | O => None
  | S f =>
      let l0 := skip_ws l in
      match l0 with
      | [] => Some (None, true, l0)
      | c :: _ =>
          if c =? 40 then
            (* ReadList: '(' items ')' *)
            let '(ok, l1) := expect 40 l0 in
            if negb ok then Some (None, false, l1)
            else match read_items f l1 with
                 | None => None
                 | Some (items, l2) =>
                     let '(ok2, l3) := expect 41 l2 in
                     Some (if ok2 then Some items else None, false, l3)
                 end
          else if c =? 41 then Some (None, true, l0)
          else if c =? 34 then let '(v, r) := read_string l0 in Some (v, false, r)
          else if c =? 35 then let '(v, r) := read_bignum l0 in Some (v, false, r)
          else let '(v, r) := read_symbol l0 in Some (v, false, r)
      end
  end
with read_items (fuel : nat) (l : bytes) : option (sx * bytes) :=
  match fuel with
  | O => None
  | S f =>
      match read_value f l with
      | None => None
      | Some (v, true, r) => Some (SNil, r)
      | Some (v, false, r) =>
          match read_items f r with
          | None => None
          | Some (rest, r') => Some (SCons v rest, r')
          end
      end
  end.

(* sexp.Read: fuel two per input byte plus a constant always suffices (Bytes/SexpProofs.v) *)
Definition sexp_read (l : bytes) : option (option sx) :=
  match read_value (2 * length l + 4) l with
  | Some (v, _, _) => Some v
  | None => None
  end.
