(* Function table for the function-level correspondence check.  The ids are
   mirrored in harness/fnids.go. *)
From OTR Require Import Go.Base Gen.Consts Corr.Val Bytes.Wire Bytes.Msgs Bytes.Strconv Bytes.B64 Bytes.Frag Bytes.Text Proto.Group Crypto.Sha Crypto.Aes Spec.Otr Bytes.Sexp Bytes.KeyFile Bytes.FragV3.
Open Scope N_scope.

Definition v_rest_n (o : option (bytes * N)) : val :=
  vopt (fun '(r, n) => VL [VB r; VN n]) o.
Definition v_rest_b (o : option (bytes * bytes)) : val :=
  vopt (fun '(r, b) => VL [VB r; VB b]) o.

Definition v_tlv (t : tlv) : val := VL [VN (tlvType t); VN (tlvLength t); VB (tlvValue t)].
Definition tlv_of (v : val) : tlv :=
  let l := valL v in {| tlvType := argN l 0; tlvLength := argN l 1; tlvValue := argB l 2 |}.

Definition v_dataMsg (c : dataMsg) : val :=
  VL [VN (dm_flag c); VN (dm_sender c); VN (dm_recipient c); VN (dm_y c); VB (dm_ctr c);
      VB (dm_enc c); VB (dm_auth c); VL (map VB (dm_oldmac c)); VB (dm_cache c)].
Definition dataMsg_of (l : list val) : dataMsg :=
  {| dm_flag := argN l 0; dm_sender := argN l 1; dm_recipient := argN l 2; dm_y := argN l 3;
     dm_ctr := argB l 4; dm_enc := argB l 5; dm_auth := argB l 6;
     dm_oldmac := map valB (argL l 7); dm_cache := [] |}.
Definition with_cache (c : dataMsg) : dataMsg :=
  {| dm_flag := dm_flag c; dm_sender := dm_sender c; dm_recipient := dm_recipient c; dm_y := dm_y c;
     dm_ctr := dm_ctr c; dm_enc := dm_enc c; dm_auth := dm_auth c; dm_oldmac := dm_oldmac c;
     dm_cache := dataMsg_serUnsigned c |}.

Definition v_pub (k : dsaPub) : val := VL [VN (dsaP k); VN (dsaQ k); VN (dsaG k); VN (dsaY k)].
Definition pub_of (l : list val) : dsaPub :=
  {| dsaP := argN l 0; dsaQ := argN l 1; dsaG := argN l 2; dsaY := argN l 3 |}.

Definition smp_dispatch (t : tlv) : val :=
  let ty := tlvType t in
  let plain k := vopt (fun m => VL [VNone; VL (map VN m)]) (toSmpMessage k (tlvValue t)) in
  if ty =? 2 then plain 6%nat
  else if ty =? 7 then vopt (fun '(q, m) => VL [VB q; VL (map VN m)]) (toSmpMessage1Q (tlvValue t))
  else if ty =? 3 then plain 11%nat
  else if ty =? 4 then plain 8%nat
  else if ty =? 5 then plain 3%nat
  else if ty =? 6 then VL [VNone; VL []]
  else VNone.

Definition dispatch_bytes (fn : N) (a : list val) : val :=
  match fn with
  | 1 => VB (AppendShort (argB a 0) (argN a 1))
  | 2 => VB (AppendWord (argB a 0) (argN a 1))
  | 3 => VB (AppendLong (argB a 0) (argN a 1))
  | 4 => VB (AppendData (argB a 0) (argB a 1))
  | 5 => VB (AppendMPI (argB a 0) (argN a 1))
  | 6 => VB (AppendMPIs (argB a 0) (map valN (argL a 1)))
  | 10 => v_rest_n (ExtractByte (argB a 0))
  | 11 => v_rest_n (ExtractShort (argB a 0))
  | 12 => v_rest_n (ExtractWord (argB a 0))
  | 13 => v_rest_n (ExtractLong (argB a 0))
  | 14 => v_rest_b (ExtractData (argB a 0))
  | 15 => v_rest_b (ExtractFixedData (argB a 0) (argN a 1))
  | 16 => v_rest_n (ExtractMPI (argB a 0))
  | 17 => vopt (fun '(r, l) => VL [VB r; VL (map VN l)]) (ExtractMPIs (argB a 0))
  | 20 => VB (dhCommit_ser {| encryptedGx := argB a 0; yhashedGx := argB a 1 |})
  | 21 => vopt (fun c => VL [VB (encryptedGx c); VB (yhashedGx c)]) (dhCommit_deser (argB a 0))
  | 22 => VB (dhKey_ser (argN a 0))
  | 23 => vopt VN (dhKey_deser (argB a 0))
  | 24 => VB (revealSig_ser {| rs_r := argB a 0; rs_encSig := argB a 1; rs_mac := argB a 2 |})
  | 25 => vopt (fun c => VL [VB (rs_r c); VB (rs_encSig c); VB (rs_mac c)]) (revealSig_deser (argB a 0))
  | 26 => VB (sig_ser {| sg_encSig := argB a 0; sg_mac := argB a 1 |})
  | 27 => vopt (fun c => VL [VB (sg_encSig c); VB (sg_mac c)]) (sig_deser (argB a 0))
  | 28 => VB (dataMsg_serUnsigned (dataMsg_of a))
  | 29 => VB (dataMsg_ser (with_cache (dataMsg_of a)))
  | 30 => match dataMsg_deser (argB a 0) with Ok c => v_dataMsg c | _ => VNone end
  | 31 => VB (tlv_ser (tlv_of (nth 0 a VNone)))
  | 32 => vopt v_tlv (tlv_deser (argB a 0))
  | 33 => VB (plainDataMsg_ser {| pm_message := argB a 0; pm_tlvs := map tlv_of (argL a 1) |})
  | 34 => VB (plainDataMsg_ser (plainDataMsg_pad {| pm_message := argB a 0; pm_tlvs := map tlv_of (argL a 1) |}))
  | 35 => vopt (fun c => VL [VB (pm_message c); VL (map v_tlv (pm_tlvs c))]) (plainDataMsg_deser (argB a 0))
  | 36 => v_tlv (genSMPTLV (argN a 0) (map valN (argL a 1)))
  | 37 => v_tlv (smp1_tlv (map valN (argL a 0))
                          (match nth 1 a VNone with VB q => Some q | _ => None end))
  | 38 => smp_dispatch (tlv_of (nth 0 a VNone))
  | 40 => VB (dsaPub_ser (pub_of a))
  | 41 => vopt (fun '(r, k) => VL [VB r; v_pub k]) (dsaPub_parse (argB a 0))
  | 42 => VB (dsaPriv_ser (pub_of a) (argN a 4))
  | 43 => vopt (fun '(r, k, x) => VL [VB r; v_pub k; VN x]) (dsaPriv_parse (argB a 0))
  | _ => VErr 999
  end.

(* Receive on a v2-only plaintext conversation, restricted to v2 fragments, plain text without OTR markers and
   encoded messages that are rejected: what each call returns as plaintext *)
Fixpoint run_v2_frags (c : fragctx) (msgs : list bytes) : list val :=
  match msgs with
  | [] => []
  | m :: r =>
      if is_prefix v_otrv2FragmentationPrefix m then
        let '(c', done) := receiveFragmentV2 c m in
        (match done with Some d => VB d | None => VNone end) :: run_v2_frags c' r
      else if is_prefix [63; 79; 84; 82; 58] m then
        (* "?OTR:" - an encoded message; the harness only sends ones this conversation rejects: nothing is returned,
           and like every message that is not a fragment it ends the fragment stream *)
        VNone :: run_v2_frags fc_empty r
      else VB m :: run_v2_frags fc_empty r
  end.

(* Receive on a v3-only plaintext conversation with own tag [our], restricted to messages with the v3 fragment
   marker: what each call returns as plaintext, and the peer instance the conversation is bound to afterwards *)
Fixpoint run_v3_frags (our : N) (s : fragctx * N) (msgs : list bytes) : list val :=
  match msgs with
  | [] => []
  | m :: r =>
      let '(s', done) := receiveFragmentV3 our s m in
      VL [match done with Some d => VB d | None => VNone end; VN (snd s')] :: run_v3_frags our s' r
  end.

Definition v_tags (r : R (option (N * N))) : val :=
  match r with
  | Ok (Some (o, t)) => VL [VN o; VN t]
  | Ok None => VNone
  | Err e => VErr e
  | Panic => VPanic
  end.

Fixpoint v_sx (s : sx) : val :=
  match s with
  | SNil => VL [VN 0]
  | SCons a b => VL [VN 1; match a with Some x => v_sx x | None => VNone end; v_sx b]
  | SSym b => VL [VN 2; VB b]
  | SStr b => VL [VN 3; VB b]
  | SNum None => VL [VN 4; VNone]
  | SNum (Some (neg, n)) => VL [VN 4; VL [vbool neg; VN n]]
  end.

Definition v_big (v : bigint) : val := match v with None => VNone | Some (neg, n) => VL [vbool neg; VN n] end.
Definition big_of (v : val) : bigint :=
  match v with VL [VN s; VN n] => Some (negb (s =? 0), n) | _ => None end.
Definition v_account (a : account) : val :=
  let k := aKey a in VL [VB (aName a); VB (aProto a); VL (map v_big [dP k; dQ k; dG k; dY k; dX k])].
Definition account_of (v : val) : account :=
  let l := valL v in
  let k := map big_of (argL l 2) in
  {| aName := argB l 0; aProto := argB l 1;
     aKey := {| dP := nth 0 k None; dQ := nth 1 k None; dG := nth 2 k None; dY := nth 3 k None; dX := nth 4 k None |} |}.

Definition dispatch_text (fn : N) (a : list val) : val :=
  match fn with
  | 50 => VB (b64encode (argB a 0))
  | 51 => vopt VB (b64decode (argB a 0))
  | 52 => match decode (argB a 0) with Ok d => VB d | Err _ => VNone | Panic => VPanic end
  | 53 => VB (encode (argB a 0))
  | 90 => vbool (isGroupElementN (argN a 0) (argN a 1))
  | 120 => match sexp_read (argB a 0) with Some (Some x) => v_sx x | Some None => VNone | None => VErr 998 end
  | 121 => match importKeys (argB a 0) with Some (Some l) => VL (map v_account l) | Some None => VNone | None => VErr 998 end
  | 122 => VB (exportAccounts (map account_of (argL a 0)))
  | 123 => match import_priv (argB a 0) with Some l => VL (map VN l) | None => VNone end
  (* cryptographic primitives of the specification model *)
  | 100 => VB (sha1 (argB a 0))
  | 101 => VB (sha256 (argB a 0))
  | 102 => VB (hmac_sha1 (argB a 0) (argB a 1))
  | 103 => VB (hmac_sha256 (argB a 0) (argB a 1))
  | 104 => VB (aes_ctr (argB a 0) (argB a 1) (argB a 2))
  | 105 => VB (aes_encrypt_block (argB a 0) (argB a 1))
  (* the specification: key derivation and messages; arguments as documented in harness/c10.go *)
  | 110 => let k := spec_ake_keys (argN a 0) in VL (map VB [k_ssid k; k_c k; k_c' k; k_m1 k; k_m2 k; k_m1' k; k_m2' k])
  | 111 => let k := spec_data_keys (argN a 0) (argN a 1) (argN a 2) in
           VL (map VB [dk_send_aes k; dk_recv_aes k; dk_send_mac k; dk_recv_mac k; dk_extra k])
  | 112 => VB (spec_dh_commit (argN a 0) (argN a 1) (argN a 2) (argB a 3) (argN a 4))
  | 113 => VB (spec_dh_key (argN a 0) (argN a 1) (argN a 2) (argN a 3))
  | 114 => VB (spec_reveal_sig (argN a 0) (argN a 1) (argN a 2) (argB a 3) (spec_ake_keys (argN a 4))
                 {| dp := argN a 5; dq := argN a 6; dg := argN a 7; dy := argN a 8 |} (argN a 9) (argB a 10))
  | 115 => VB (spec_signature (argN a 0) (argN a 1) (argN a 2) (spec_ake_keys (argN a 3))
                 {| dp := argN a 4; dq := argN a 5; dg := argN a 6; dy := argN a 7 |} (argN a 8) (argB a 9))
  | 116 => VB (spec_data_message (argN a 0) (argN a 1) (argN a 2) (argN a 3) (argN a 4) (argN a 5) (argN a 6) (argB a 7)
                 (spec_data_keys (argN a 8) (argN a 9) (argN a 10)) (argB a 11) (argB a 12))
  | 117 => VB (spec_M (argB a 0) (argN a 1) (argN a 2) {| dp := argN a 3; dq := argN a 4; dg := argN a 5; dy := argN a 6 |} (argN a 7))
  | 118 => VB (spec_payload (argB a 0) (map (fun v => match v with VL [VN ty; VB b] => (ty, b) | _ => (0, []) end) (argL a 1)))
  | 80 => match dataMsg_deser (argB a 0) with Ok c => v_dataMsg c | Err _ => VNone | Panic => VPanic end
  | 60 => VB (fragPrefix (argN a 0 =? 3) (argN a 1) (argN a 2) (argN a 3) (argN a 4))
  | 61 => VL (map VB (fragment (argN a 0 =? 3) (argN a 1) (argN a 2) (argB a 3) (argN a 4)))
  | 62 => vopt (fun '(d, ix, l) => VL [VB d; VN ix; VN l]) (parseFragment (argB a 0))
  | 63 => vopt VN (bytesToUint16 (argB a 0))
  | 64 => vopt VN (parseItag (argB a 0))
  | 65 => VL (run_v2_frags fc_empty (map valB (argL a 0)))
  | 66 => VL (run_v3_frags (argN a 0) (fc_empty, 0) (map valB (argL a 1)))
  | 68 => v_tags (ExtractInstanceTags (argB a 0))
  | 70 => VN (guessMessageType (argB a 0))
  | 71 => VL (map VN (parseOTRQueryMessage (argB a 0)))
  | 72 => VN (extractVersionsFromQueryMessage (argN a 0) (argB a 1))
  | 73 => VB (QueryMessage (argN a 0) (argB a 1))
  | 74 => VB (genWhitespaceTag (argN a 0))
  | 75 => vR (fun '(p, v) => VL [VB p; VN v]) (extractWhitespaceTag (argB a 0))
  | 76 => VB (convertToWhitespace (argB a 0))
  | _ => VErr 999
  end.

Definition dispatch (fn : N) (a : list val) : val :=
  if fn <? 50 then dispatch_bytes fn a else dispatch_text fn a.
