(* Universal value type used by the correspondence check: the Go harness prints
   inputs and observed outputs in this syntax, the model side computes its own
   output with [vm_compute] and compares with [val_eqb]. *)
From OTR Require Import Go.Base.
Open Scope N_scope.

(* long runs of the test pattern 1,2,..,7,1,2,.. are written by the harness as [patb len first] (a literal list of
   tens of thousands of numerals takes Coq minutes to parse) *)
Fixpoint patb (n : nat) (x : N) : bytes :=
  match n with
  | O => []
  | S n' => x :: patb n' (x mod 7 + 1)
  end.

(* large numbers are written by the harness as their big-endian bytes *)
Definition nb (b : bytes) : N := fold_left (fun a x => a * 256 + x) b 0.

Inductive val : Type :=
| VN (n : N)
| VB (b : bytes)
| VL (l : list val)
| VNone
| VErr (e : N)
| VPanic.

Fixpoint val_eqb (a b : val) {struct a} : bool :=
  match a, b with
  | VN x, VN y => N.eqb x y
  | VB x, VB y => bytes_eqb x y
  | VL x, VL y =>
      (fix go (x y : list val) {struct x} : bool :=
         match x, y with
         | [], [] => true
         | a :: x', b :: y' => val_eqb a b && go x' y'
         | _, _ => false
         end) x y
  | VNone, VNone => true
  | VErr x, VErr y => N.eqb x y
  | VPanic, VPanic => true
  | _, _ => false
  end.

Definition vbool (b : bool) : val := VN (if b then 1 else 0).
Definition vopt {A} (f : A -> val) (o : option A) : val :=
  match o with Some a => f a | None => VNone end.
Definition vlist {A} (f : A -> val) (l : list A) : val := VL (map f l).
Definition vR {A} (f : A -> val) (r : R A) : val :=
  match r with Ok a => f a | Err e => VErr e | Panic => VPanic end.

(* argument accessors: a malformed case (harness bug) yields defaults, and the
   comparison then fails visibly *)
Definition argB (l : list val) (i : nat) : bytes :=
  match nth i l VNone with VB b => b | _ => [] end.
Definition argN (l : list val) (i : nat) : N :=
  match nth i l VNone with VN n => n | _ => 0 end.
Definition argL (l : list val) (i : nat) : list val :=
  match nth i l VNone with VL v => v | _ => [] end.
Definition valB (v : val) : bytes := match v with VB b => b | _ => [] end.
Definition valN (v : val) : N := match v with VN n => n | _ => 0 end.
Definition valL (v : val) : list val := match v with VL l => l | _ => [] end.

Record case := { c_fn : N; c_args : list val; c_out : val }.

Section Mismatch.
  Variable dispatch : N -> list val -> val.
  Fixpoint mismatches_from (i : N) (cs : list case) : list (N * val) :=
    match cs with
    | [] => []
    | c :: cs' =>
        let m := dispatch (c_fn c) (c_args c) in
        if val_eqb m (c_out c) then mismatches_from (i + 1) cs'
        else (i, m) :: mismatches_from (i + 1) cs'
    end.
  Definition mismatches := mismatches_from 0.
End Mismatch.
