(* C18 — session lifecycle, security events and retransmission discipline. *)
From OTR Require Import Go.Base Gen.Consts Bytes.Text Proto.SmpTypes Proto.Keys Proto.Smp Proto.Conv Proto.ConvProofs.
From RecordUpdate Require Import RecordSet.
Import RecordSetNotations.
Open Scope N_scope.

(* completing a key exchange: the conversation becomes encrypted and raises GoneSecure, or StillSecure when
   it already was; the reported session id and role are those of the completed exchange *)
Theorem C18_ake_completion : forall now c ev,
  let '(_, c', ev') := akeHasFinished now c ev in
  c_msgState c' = c_encrypted /\
  ev' = ev ++ [evSec (if c_msgState c =? c_encrypted then c_StillSecure else c_GoneSecure)] /\
  c_ssid c' = a_ssid (the_ake c) /\ c_sentRevealSig c' = a_sentRevealSig (the_ake c) /\
  c_lastMsgStateChange c' = Some now /\
  ourKeyID (c_keys c') = ourKeyID (a_keys (the_ake c)) + 1 /\ theirKeyID (c_keys c') = theirKeyID (a_keys (the_ake c)) /\
  ourPrevious (c_keys c') = ourCurrent (a_keys (the_ake c)) /\
  counters (c_keys c') = counters (a_keys (the_ake c)) /\ macHistory (c_keys c') = macHistory (a_keys (the_ake c)).
Proof. exact akeHasFinished_spec. Qed.
Print Assumptions C18_ake_completion.

(* End: always back to plaintext, GoneInsecure exactly when the conversation was encrypted, never GoneSecure;
   keys gone; the last message of the ended session is forgotten *)
Theorem C18_end : forall now c,
  let '(c', r) := step now c CEnd in
  c_msgState c' = c_plainText /\ c_ake c' = None /\
  (In (evSec c_GoneInsecure) (r_events r) <-> c_msgState c = c_encrypted) /\
  ~ In (evSec c_GoneSecure) (r_events r) /\
  ourCurrent (c_keys c') = None /\ ourPrevious (c_keys c') = None /\ theirPrevious (c_keys c') = None /\
  counters (c_keys c') = [] /\ macHistory (c_keys c') = [] /\ oldMACKeys (c_keys c') = [] /\
  (c_msgState c <> c_plainText -> c_resendMsgs c' = [] /\ c_mayRetransmit c' = c_noRetransmit).
Proof. exact end_spec. Qed.
Print Assumptions C18_end.

(* after the peer's disconnect Send refuses text until End is called *)
Theorem C18_finished_refuses : forall now c t,
  isOTREnabled (c_policies c) = true -> c_msgState c = c_finished ->
  let '(c', r) := step now c (CSend t) in
  r_out r = c_injections c /\ r_err r = 1 /\ c' = c <| c_injections := [] |>.
Proof. exact send_finished_refuses. Qed.
Print Assumptions C18_finished_refuses.
