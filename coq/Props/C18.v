(* C18 — session lifecycle, security events and retransmission discipline. *)
From OTR Require Import Go.Base Gen.Consts Bytes.Text Proto.SmpTypes Proto.Keys Proto.Smp Proto.Conv Proto.ConvProofs.
From RecordUpdate Require Import RecordSet.
Import RecordSetNotations.
Open Scope N_scope.

(* completing a key exchange: the conversation becomes encrypted and raises GoneSecure, or StillSecure when
   it already was; the reported session id and role are those of the completed exchange *)
Theorem C18_ake_completion : forall now c ev,
  let '(_, c', ev') := akeHasFinished now c ev in
  c_msgState c' = c_encrypted /\
  ev' = ev ++ [evSec (if c_msgState c =? c_encrypted then c_StillSecure else c_GoneSecure)] /\
  c_ssid c' = a_ssid (the_ake c) /\ c_sentRevealSig c' = a_sentRevealSig (the_ake c) /\
  c_lastMsgStateChange c' = Some now /\
  ourKeyID (c_keys c') = ourKeyID (a_keys (the_ake c)) + 1 /\ theirKeyID (c_keys c') = theirKeyID (a_keys (the_ake c)) /\
  ourPrevious (c_keys c') = ourCurrent (a_keys (the_ake c)) /\
  counters (c_keys c') = counters (a_keys (the_ake c)) /\ macHistory (c_keys c') = macHistory (a_keys (the_ake c)).
Proof. exact akeHasFinished_spec. Qed.
Print Assumptions C18_ake_completion.

(* End: always back to plaintext, GoneInsecure exactly when the conversation was encrypted, never GoneSecure;
   keys gone; the last message of the ended session is forgotten *)
Theorem C18_end : forall now c,
  let '(c', r) := step now c CEnd in
  c_msgState c' = c_plainText /\ c_ake c' = None /\
  (In (evSec c_GoneInsecure) (r_events r) <-> c_msgState c = c_encrypted) /\
  ~ In (evSec c_GoneSecure) (r_events r) /\
  ourCurrent (c_keys c') = None /\ ourPrevious (c_keys c') = None /\ theirPrevious (c_keys c') = None /\
  counters (c_keys c') = [] /\ macHistory (c_keys c') = [] /\ oldMACKeys (c_keys c') = [] /\
  (c_msgState c <> c_plainText -> c_resendMsgs c' = [] /\ c_mayRetransmit c' = c_noRetransmit).
Proof. exact end_spec. Qed.
Print Assumptions C18_end.

(* after the peer's disconnect Send refuses text until End is called *)
Theorem C18_finished_refuses : forall now c t,
  isOTREnabled (c_policies c) = true -> c_msgState c = c_finished ->
  let '(c', r) := step now c (CSend t) in
  r_out r = c_injections c /\ r_err r = 1 /\ c' = c <| c_injections := [] |>.
Proof. exact send_finished_refuses. Qed.
Print Assumptions C18_finished_refuses.

(* ---- the whole lifecycle, for every call and every history ----
   [track b evs] replays the security events on the encrypted status: GoneSecure is legal only from not-encrypted and
   leads to encrypted, StillSecure only while encrypted, GoneInsecure only from encrypted and leads to not-encrypted;
   no other event moves the status; an event out of place gives None. *)
From OTR Require Import Proto.Lifecycle.

(* one call, any state, any input: the events it reports are exactly a legal track from the status before to the
   status after - so the status changes only with the matching event and every such event is a real transition *)
Theorem C18_call_events_track_status : forall now c op, let '(c', r) := step now c op in
  track (encb (c_msgState c)) (r_events r) = Some (encb (c_msgState c')).
Proof. exact step_tracks. Qed.
Print Assumptions C18_call_events_track_status.

(* every history of calls (any inputs, any clock values) on a new conversation: it is encrypted exactly when the
   security events raised so far say so *)
Theorem C18_encrypted_exactly_between_events : forall who pol key h,
  let '(c', evs) := run_calls (conv_init who pol key) h in
  track false evs = Some (c_msgState c' =? c_encrypted).
Proof. exact encrypted_iff_events. Qed.
Print Assumptions C18_encrypted_exactly_between_events.

(* Send, SMP calls, extra-key requests and TLV sends never change the message state nor raise a security event:
   only Receive (completed exchange, peer's disconnect) and End do *)
Theorem C18_only_receive_and_end_change_state : forall now c op,
  (match op with CReceive _ _ _ | CEnd => False | _ => True end) ->
  let '(c', r) := step now c op in c_msgState c' = c_msgState c /\ nosec (r_events r).
Proof. exact step_user_calls_frame. Qed.
Print Assumptions C18_only_receive_and_end_change_state.

(* the tracking function has teeth *)
Example C18_track_accepts : track false [evSec c_GoneSecure; c_MessageEventLogHeartbeatSent; evSec c_StillSecure; evSec c_GoneInsecure] = Some false.
Proof. reflexivity. Qed.
Example C18_track_refuses : track false [evSec c_GoneInsecure] = None /\ track true [evSec c_GoneSecure] = None /\
  track false [evSec c_StillSecure] = None.
Proof. vm_compute; auto. Qed.

(* the texts that travel: in every history of a new conversation every text that leaves - in the clear, as payload of a
   data message, released from the queue after a key exchange or sent again on the peer's request - is empty
   (heartbeats, TLV carriers), a text the user has given to Send up to that call, or such a text behind the resend marker;
   and nothing else is ever queued (Proto/Provenance.v) *)
From OTR Require Import Proto.Provenance.
Theorem C18_only_sent_texts_travel : forall who pol key h, all_provenance [] (conv_init who pol key) h.
Proof. exact only_sent_texts_travel. Qed.
Print Assumptions C18_only_sent_texts_travel.

Theorem C18_call_keeps_provenance : forall S now op, (match op with CSend t => In t S | _ => True end) ->
  forall c, PInv S c -> let '(c', r) := step now c op in PInv S c' /\ okl S (r_out r).
Proof. exact pv_step. Qed.
Print Assumptions C18_call_keeps_provenance.

Example C18_texts_example : r_out (snd (step 0 (conv_init 1 6 1) (CSend [104; 105]))) = [WPlain [104; 105] None].
Proof. vm_compute; reflexivity. Qed.
