(* C13 — untrusted input and randomness failure never crash, hang or exhaust memory (byte-level parsers). *)
From OTR Require Import Go.Base Gen.Consts Bytes.Wire Bytes.WireProofs Bytes.Msgs Bytes.B64 Bytes.Frag Bytes.TotalProofs.
Open Scope N_scope.

(* the routing helper returns for every byte string *)
Theorem C13_ExtractInstanceTags_total : forall m, ExtractInstanceTags m <> Panic.
Proof. exact ExtractInstanceTags_no_panic. Qed.
Print Assumptions C13_ExtractInstanceTags_total.

(* removing the envelope can only fail on inputs not longer than the marker (Receive decodes only messages
   that matched a nine byte type prefix) *)
Theorem C13_decode_total : forall m, (length Gen.Consts.v_msgMarker < length m)%nat -> decode m <> Panic.
Proof. exact decode_no_panic. Qed.
Print Assumptions C13_decode_total.

(* the data message parser returns a value or an error for every byte string *)
Theorem C13_dataMsg_deserialize_total : forall b, dataMsg_deser b <> Panic.
Proof. exact dataMsg_deser_no_panic. Qed.
Print Assumptions C13_dataMsg_deserialize_total.

(* the TLV loop terminates: [length input] rounds always suffice *)
Theorem C13_tlv_loop_terminates : forall f b acc, (length b <= f)%nat -> tlvs_deser f b acc = tlvs_deser (length b) b acc.
Proof. exact tlvs_deser_fuel_enough. Qed.
Print Assumptions C13_tlv_loop_terminates.

(* what ExtractMPIs allocates is bounded by the input length, whatever count the input announces *)
Theorem C13_ExtractMPIs_allocation_bounded : forall d, ExtractMPIs_alloc d <= lenN d / 4.
Proof. exact ExtractMPIs_alloc_bound. Qed.
Print Assumptions C13_ExtractMPIs_allocation_bounded.

(* the s-expression reader behind the key-file import terminates on every input: 2*|input|+4 rounds always suffice,
   every list item consumes at least one byte *)
From OTR Require Import Bytes.Sexp Bytes.SexpProofs.
Theorem C13_sexp_reader_terminates : forall l, sexp_read l <> None.
Proof. exact sexp_read_total. Qed.
Print Assumptions C13_sexp_reader_terminates.

(* nor is there one in the key-file reader above it: ImportKeys returns on every input *)
From OTR Require Import Bytes.KeyFile Bytes.KeyFileProofs.
Theorem C13_importKeys_terminates : forall l, importKeys l <> None.
Proof. exact importKeys_total. Qed.
Print Assumptions C13_importKeys_terminates.

(* ---- the protocol logic, over every history ----
   In every state a conversation can reach, whatever was sent to it and whatever the user did, the key management never
   dereferences a key that is not there: looking up session keys, accepting a data message and building one never
   reach the panic outcome (in the code: a nil D-H private key or nil peer value handed to the big-number routines). *)
From OTR Require Import Proto.Keys Proto.Conv Proto.Lifecycle Proto.NoPanic.
Theorem C13_key_management_never_panics : forall who pol key h,
  let c := fst (run_calls (conv_init who pol key) h) in
  (forall o t, sessionKeysFor (c_keys c) o t <> Panic) /\
  (forall d x, recvDataMsg (c_keys c) d x <> Panic) /\
  (forall hd flag pl, genDataMsg (c_keys c) hd flag pl <> Panic).
Proof. exact key_management_never_panics. Qed.
Print Assumptions C13_key_management_never_panics.

(* ---- the disconnect record ends the TLV loop (fix f9b2649) ----
   Whatever follows a disconnect record in the TLV list of a data message: nothing of it is looked at; the receiver is
   finished and holds no session keys, no SMP state, no exchange context and no version.  (Before the repair the loop
   went on and an SMP record there made the handler dereference the forgotten version.) *)
From OTR Require Import Gen.Consts Proto.SmpTypes Proto.Smp Proto.DisconnectEnds.
Theorem C13_records_behind_disconnect_are_inert : forall rnd r x acc,
  processTLVs rnd (TDisconnected :: r) x acc = processTLVs rnd [TDisconnected] x acc.
Proof. exact records_behind_disconnect_ignored. Qed.
Print Assumptions C13_records_behind_disconnect_are_inert.

Theorem C13_disconnect_ends_the_session_whatever_follows : forall rnd r x acc c ev,
  let '(res, c', ev') := processTLVs rnd (TDisconnected :: r) x acc c ev in
  res = inl acc /\ c_msgState c' = c_finished /\ c_keys c' = keyctx_empty /\ c_smp c' = smp_wiped /\ c_ake c' = None /\
  c_version c' = 0 /\
  ev' = ev ++ (if N.eqb (c_msgState c) c_encrypted then [evSec c_GoneInsecure] else []).
Proof. exact disconnect_ends_everything. Qed.
Print Assumptions C13_disconnect_ends_the_session_whatever_follows.
