(* C16 — version and policy negotiation; untouched pass-through of plain text. *)
From OTR Require Import Go.Base Gen.Consts Bytes.Strconv Bytes.Text Bytes.TextProofs.
Open Scope N_scope.

Theorem C16_commit_highest : forall p versions,
  pickVersion p versions =
  if has p c_allowV3 && offered versions 3 then 3
  else if has p c_allowV2 && offered versions 2 then 2 else 0.
Proof. exact pickVersion_highest. Qed.
Print Assumptions C16_commit_highest.

Theorem C16_commit_only_allowed_and_offered : forall p versions v, pickVersion p versions = v -> v <> 0 ->
  (v = 3 /\ has p c_allowV3 = true /\ offered versions 3 = true) \/
  (v = 2 /\ has p c_allowV2 = true /\ offered versions 2 = true /\
   (has p c_allowV3 && offered versions 3 = false)).
Proof. exact pickVersion_allowed. Qed.
Print Assumptions C16_commit_only_allowed_and_offered.

Theorem C16_query_offer : forall p q friendly,
  extractVersionsFromQueryMessage q (QueryMessage p friendly) =
  N.lor (if has p c_allowV3 && has q c_allowV3 then 8 else 0)
        (if has p c_allowV2 && has q c_allowV2 then 4 else 0).
Proof. exact query_versions. Qed.
Print Assumptions C16_query_offer.

(* tag removal returns the text byte-exact when the tag header does not begin inside the text;
   the full statement (no hypothesis) is refuted below: known finding "text-ends-with-header-prefix" *)
Theorem C16_plain_passthrough_partial : forall t p,
  index (t ++ genWhitespaceTag p) whitespaceTagHeader = Some (length t) ->
  extractWhitespaceTag (t ++ genWhitespaceTag p) =
  Ok (t, N.lor (if has p c_allowV2 then 4 else 0) (if has p c_allowV3 then 8 else 0)).
Proof. exact whitespace_passthrough. Qed.
Print Assumptions C16_plain_passthrough_partial.

Example C16_plain_passthrough_refuted :
  let t := 120 :: firstn 15 whitespaceTagHeader in
  extractWhitespaceTag (t ++ genWhitespaceTag 4) <> Ok (t, 8).
Proof. vm_compute; discriminate. Qed.

Example C16_example : pickVersion 6 12 = 3 /\ pickVersion 2 12 = 2 /\ pickVersion 4 4 = 0.
Proof. vm_compute; auto. Qed.

(* at conversation level, over histories (Proto/VersionInv.v): a new conversation with policy set [pol] never commits to
   a version the policy forbids, and every encoded message it ever emits - key exchange messages, data messages, what
   is released from the queue or kept for retransmission - carries a version that is none (0: no such header exists in
   the code), 2 with ALLOW_V2, or 3 with ALLOW_V3 *)
From OTR Require Import Proto.Conv Proto.VersionInv.
Theorem C16_only_allowed_versions_over_histories : forall who pol key h, all_versions_ok pol (conv_init who pol key) h.
Proof. exact only_allowed_versions. Qed.
Print Assumptions C16_only_allowed_versions_over_histories.

Theorem C16_call_keeps_versions_allowed : forall pol now op c, PInv pol c ->
  let '(c', r) := step now c op in PInv pol c' /\ okl pol (r_out r).
Proof. exact pv_step. Qed.
Print Assumptions C16_call_keeps_versions_allowed.

(* offered 2 and 3: a conversation that allows only 2 answers with a version 2 message, one that allows both with 3 *)
Example C16_versions_example :
  let vs pol := map (fun w => match w with WEnc v _ _ _ => v | _ => 99 end)
                    (r_out (snd (step 0 (conv_init 1 pol 1) (CReceive (WQuery 12) 0 [])))) in
  vs 2 = [2] /\ vs 6 = [3].
Proof. vm_compute; auto. Qed.
