(* C10 — everything on the wire is what the OTR v2/v3 specification prescribes.
   The specification model Spec/Otr.v (with the primitives of Crypto/) is compared byte for byte with the
   implementation on the secrets of real sessions every run; the theorems below are about that model. *)
From Coq Require Import List NArith.
From OTR Require Import Go.Base Crypto.Sha Crypto.Aes Spec.Otr Spec.OtrProofs Bytes.Wire Bytes.Msgs.
Import ListNotations.
Open Scope N_scope.

(* the two ends derive the same keys with the roles swapped (high / low end rule), for every secret *)
Theorem C10_data_keys_mirror : forall gx gy s, gx <> gy ->
  let a := spec_data_keys gx gy s in
  let b := spec_data_keys gy gx s in
  dk_send_aes a = dk_recv_aes b /\ dk_recv_aes a = dk_send_aes b /\
  dk_send_mac a = dk_recv_mac b /\ dk_recv_mac a = dk_send_mac b /\ dk_extra a = dk_extra b.
Proof. exact data_keys_mirror. Qed.
Print Assumptions C10_data_keys_mirror.

(* AES in counter mode undoes itself, for every key of 16 bytes, counter and text of any length *)
Theorem C10_aes_ctr_involutive : forall key ctr data, length key = 16%nat -> aes_ctr key ctr (aes_ctr key ctr data) = data.
Proof. exact aes_ctr_involutive. Qed.
Print Assumptions C10_aes_ctr_involutive.

(* a data message built by one end per the specification is authenticated and read back by the other end, for
   all secrets, key ids, counters, payloads and disclosed keys *)
Theorem C10_spec_accepts_spec : forall gx gy s ver stag rtag flags sk rk y ctr8 payload old,
  gx <> gy ->
  let ka := spec_data_keys gx gy s in
  let kb := spec_data_keys gy gx s in
  let enc := aes_ctr (dk_send_aes ka) (ctr8 ++ repeat 0 8) payload in
  let signed := header ver msg_data stag rtag ++ data_body flags sk rk y ctr8 enc in
  let mac := hmac_sha1 (dk_send_mac ka) signed in
  spec_data_message ver stag rtag flags sk rk y ctr8 ka payload old = signed ++ mac ++ s_data old /\
  spec_open kb signed mac ctr8 enc = Some payload.
Proof. exact spec_accepts_spec. Qed.
Print Assumptions C10_spec_accepts_spec.

(* the MPI of the specification is minimal and is the one the (proved, C17) serialiser mirror writes *)
Theorem C10_mpi_is_mirror : forall n, lenN (be_bytes n) < 4294967296 -> s_mpi n = AppendMPI [] n.
Proof. exact s_mpi_AppendMPI. Qed.
Print Assumptions C10_mpi_is_mirror.
Theorem C10_mpi_value : forall n, be_val (min_bytes n) = n.
Proof. exact s_mpi_value. Qed.
Print Assumptions C10_mpi_value.

(* the authenticated part of a data message is laid out as dataMsg.serializeUnsigned lays it out *)
Theorem C10_data_body_is_mirror : forall flags sk rk y ctr8 enc,
  lenN (be_bytes y) < 4294967296 -> lenN enc < 4294967296 ->
  data_body flags sk rk y ctr8 enc =
  dataMsg_serUnsigned {| dm_flag := flags mod 256; dm_sender := sk; dm_recipient := rk; dm_y := y; dm_ctr := ctr8;
                         dm_enc := enc; dm_auth := []; dm_oldmac := []; dm_cache := [] |}.
Proof. exact data_body_eq_mirror. Qed.
Print Assumptions C10_data_body_is_mirror.

(* known answers of the primitives (FIPS 180-4, FIPS 197, SP 800-38A, RFC 2202, RFC 4231), by kernel evaluation *)
Theorem C10_known_answers :
  sha256 [97; 98; 99] = [186; 120; 22; 191; 143; 1; 207; 234; 65; 65; 64; 222; 93; 174; 34; 35; 176; 3; 97; 163; 150; 23; 122; 156; 180; 16; 255; 97; 242; 0; 21; 173] /\
  sha1 [97; 98; 99] = [169; 153; 62; 54; 71; 6; 129; 106; 186; 62; 37; 113; 120; 80; 194; 108; 156; 208; 216; 157] /\
  aes_encrypt_block [0;1;2;3;4;5;6;7;8;9;10;11;12;13;14;15] [0;17;34;51;68;85;102;119;136;153;170;187;204;221;238;255] =
    [105;196;224;216;106;123;4;48;216;205;183;128;112;180;197;90] /\
  hmac_sha1 (repeat 11 20) [72; 105; 32; 84; 104; 101; 114; 101] =
    [182; 23; 49; 134; 85; 5; 114; 100; 226; 139; 192; 182; 251; 55; 140; 142; 241; 70; 190; 0].
Proof. vm_compute; auto. Qed.
Print Assumptions C10_known_answers.
