(* C17 — every protocol structure and key survives serialisation round trips.
   This file contains only the property theorems; each is closed by [exact]. *)
From OTR Require Import Go.Base Bytes.Wire Bytes.WireProofs.
Open Scope N_scope.

(* parse (serialise v ++ tail) = (tail, v) for words, DATA, MPI and MPI lists *)
Theorem C17_word_roundtrip : forall n t, n < 4294967296 -> ExtractWord (ser_word n ++ t) = Some (t, n).
Proof. exact ExtractWord_ser. Qed.
Print Assumptions C17_word_roundtrip.

Theorem C17_short_roundtrip : forall n t, n < 65536 -> ExtractShort (ser_short n ++ t) = Some (t, n).
Proof. exact ExtractShort_ser. Qed.
Print Assumptions C17_short_roundtrip.

Theorem C17_long_roundtrip : forall n t, n < 18446744073709551616 -> ExtractLong (ser_long n ++ t) = Some (t, n).
Proof. exact ExtractLong_ser. Qed.
Print Assumptions C17_long_roundtrip.

Theorem C17_data_roundtrip : forall r t, lenN r < 4294967296 -> ExtractData (AppendData [] r ++ t) = Some (t, r).
Proof. exact ExtractData_ser. Qed.
Print Assumptions C17_data_roundtrip.

(* every accepted DATA is exactly a serialisation: lengths always match contents *)
Theorem C17_data_parse_is_serialisation : forall d r v, wfb d -> ExtractData d = Some (r, v) ->
  d = AppendData [] v ++ r /\ lenN v < 4294967296.
Proof. exact ExtractData_inv. Qed.
Print Assumptions C17_data_parse_is_serialisation.

Theorem C17_mpi_roundtrip : forall n t, mpi_ok n -> ExtractMPI (AppendMPI [] n ++ t) = Some (t, n).
Proof. exact ExtractMPI_ser. Qed.
Print Assumptions C17_mpi_roundtrip.

(* integers are emitted in minimal form *)
Theorem C17_mpi_minimal : forall n, no_lead0 (be_bytes n) /\ be_val (be_bytes n) = n.
Proof. exact (fun n => conj (be_bytes_minimal n) (be_val_be_bytes n)). Qed.
Print Assumptions C17_mpi_minimal.

(* re-serialising any successfully parsed MPI parses to the same value *)
Theorem C17_mpi_reparse : forall d r n t, wfb d -> ExtractMPI d = Some (r, n) ->
  ExtractMPI (AppendMPI [] n ++ t) = Some (t, n).
Proof. exact ExtractMPI_reser. Qed.
Print Assumptions C17_mpi_reparse.

Theorem C17_mpis_roundtrip : forall ns t, lenN ns < 4294967296 -> Forall mpi_ok ns ->
  ExtractMPIs (ser_mpis ns ++ t) = Some (t, ns).
Proof. exact ExtractMPIs_ser. Qed.
Print Assumptions C17_mpis_roundtrip.

(* non-vacuity: the hypotheses are met by concrete non-trivial values *)
Example C17_example : mpi_ok 65537 /\ ExtractMPI (AppendMPI [] 65537 ++ [7]) = Some ([7], 65537).
Proof. split; vm_compute; reflexivity. Qed.
