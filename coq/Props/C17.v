(* C17 — every protocol structure and key survives serialisation round trips.
   This file contains only the property theorems; each is closed by [exact]. *)
From OTR Require Import Go.Base Bytes.Wire Bytes.WireProofs.
Open Scope N_scope.

(* parse (serialise v ++ tail) = (tail, v) for words, DATA, MPI and MPI lists *)
Theorem C17_word_roundtrip : forall n t, n < 4294967296 -> ExtractWord (ser_word n ++ t) = Some (t, n).
Proof. exact ExtractWord_ser. Qed.
Print Assumptions C17_word_roundtrip.

Theorem C17_short_roundtrip : forall n t, n < 65536 -> ExtractShort (ser_short n ++ t) = Some (t, n).
Proof. exact ExtractShort_ser. Qed.
Print Assumptions C17_short_roundtrip.

Theorem C17_long_roundtrip : forall n t, n < 18446744073709551616 -> ExtractLong (ser_long n ++ t) = Some (t, n).
Proof. exact ExtractLong_ser. Qed.
Print Assumptions C17_long_roundtrip.

Theorem C17_data_roundtrip : forall r t, lenN r < 4294967296 -> ExtractData (AppendData [] r ++ t) = Some (t, r).
Proof. exact ExtractData_ser. Qed.
Print Assumptions C17_data_roundtrip.

(* every accepted DATA is exactly a serialisation: lengths always match contents *)
Theorem C17_data_parse_is_serialisation : forall d r v, wfb d -> ExtractData d = Some (r, v) ->
  d = AppendData [] v ++ r /\ lenN v < 4294967296.
Proof. exact ExtractData_inv. Qed.
Print Assumptions C17_data_parse_is_serialisation.

Theorem C17_mpi_roundtrip : forall n t, mpi_ok n -> ExtractMPI (AppendMPI [] n ++ t) = Some (t, n).
Proof. exact ExtractMPI_ser. Qed.
Print Assumptions C17_mpi_roundtrip.

(* integers are emitted in minimal form *)
Theorem C17_mpi_minimal : forall n, no_lead0 (be_bytes n) /\ be_val (be_bytes n) = n.
Proof. exact (fun n => conj (be_bytes_minimal n) (be_val_be_bytes n)). Qed.
Print Assumptions C17_mpi_minimal.

(* re-serialising any successfully parsed MPI parses to the same value *)
Theorem C17_mpi_reparse : forall d r n t, wfb d -> ExtractMPI d = Some (r, n) ->
  ExtractMPI (AppendMPI [] n ++ t) = Some (t, n).
Proof. exact ExtractMPI_reser. Qed.
Print Assumptions C17_mpi_reparse.

Theorem C17_mpis_roundtrip : forall ns t, lenN ns < 4294967296 -> Forall mpi_ok ns ->
  ExtractMPIs (ser_mpis ns ++ t) = Some (t, ns).
Proof. exact ExtractMPIs_ser. Qed.
Print Assumptions C17_mpis_roundtrip.

(* non-vacuity: the hypotheses are met by concrete non-trivial values *)
Example C17_example : mpi_ok 65537 /\ ExtractMPI (AppendMPI [] 65537 ++ [7]) = Some ([7], 65537).
Proof. split; vm_compute; reflexivity. Qed.

(* ---- protocol structures ---- *)
From OTR Require Import Bytes.Msgs Bytes.MsgsProofs.

Theorem C17_dhCommit_roundtrip : forall c t, sz (encryptedGx c) -> sz (yhashedGx c) ->
  dhCommit_deser (dhCommit_ser c ++ t) = Some c.
Proof. exact dhCommit_roundtrip. Qed.
Print Assumptions C17_dhCommit_roundtrip.

Theorem C17_dhKey_roundtrip : forall gy t, mpi_ok gy -> dhKey_deser (dhKey_ser gy ++ t) = Some gy.
Proof. exact dhKey_roundtrip. Qed.
Print Assumptions C17_dhKey_roundtrip.

Theorem C17_revealSig_roundtrip : forall r x mac, lenN r = 16 -> sz x -> 20 <= lenN mac ->
  revealSig_deser (revealSig_ser {| rs_r := r; rs_encSig := AppendData [] x; rs_mac := mac |}) =
  Some {| rs_r := r; rs_encSig := x; rs_mac := firstn 20 mac |}.
Proof. exact revealSig_roundtrip. Qed.
Print Assumptions C17_revealSig_roundtrip.

Theorem C17_sig_roundtrip : forall x mac, sz x -> 20 <= lenN mac ->
  sig_deser (sig_ser {| sg_encSig := AppendData [] x; sg_mac := mac |}) =
  Some {| sg_encSig := x; sg_mac := firstn 20 mac |}.
Proof. exact sig_roundtrip. Qed.
Print Assumptions C17_sig_roundtrip.

Theorem C17_dataMsg_roundtrip : forall c, dm_ok c -> dataMsg_deser (dataMsg_ser c) = Ok c.
Proof. exact dataMsg_roundtrip. Qed.
Print Assumptions C17_dataMsg_roundtrip.

Theorem C17_tlv_roundtrip : forall t rest, tlv_ok t -> tlv_deser (tlv_ser t ++ rest) = Some t.
Proof. exact tlv_roundtrip. Qed.
Print Assumptions C17_tlv_roundtrip.

Theorem C17_plainDataMsg_roundtrip : forall c, nul_free (pm_message c) -> Forall tlv_ok (pm_tlvs c) ->
  plainDataMsg_deser (plainDataMsg_ser c) = Some c.
Proof. exact plainDataMsg_roundtrip. Qed.
Print Assumptions C17_plainDataMsg_roundtrip.

Theorem C17_padded_roundtrip : forall c, nul_free (pm_message c) -> Forall tlv_ok (pm_tlvs c) ->
  plainDataMsg_deser (plainDataMsg_ser (plainDataMsg_pad c)) = Some (plainDataMsg_pad c).
Proof. exact plainDataMsg_pad_roundtrip. Qed.
Print Assumptions C17_padded_roundtrip.

Theorem C17_smp_payload_roundtrip : forall tp mpis k, length mpis = k -> lenN mpis < 4294967296 ->
  Forall mpi_ok mpis -> toSmpMessage k (tlvValue (genSMPTLV tp mpis)) = Some mpis.
Proof. exact smp_payload_roundtrip. Qed.
Print Assumptions C17_smp_payload_roundtrip.

(* lengths match contents as long as the payload fits the 16-bit TLV length *)
Theorem C17_smp_tlv_len_matches : forall tp mpis,
  lenN (tlvValue (genSMPTLV tp mpis)) < 65536 ->
  tlvLength (genSMPTLV tp mpis) = lenN (tlvValue (genSMPTLV tp mpis)).
Proof. exact smp_tlv_len_matches. Qed.
Print Assumptions C17_smp_tlv_len_matches.

Theorem C17_dsaPub_roundtrip : forall k t, pub_ok k -> dsaPub_parse (dsaPub_ser k ++ t) = Some (t, k).
Proof. exact dsaPub_roundtrip. Qed.
Print Assumptions C17_dsaPub_roundtrip.

Theorem C17_dsaPriv_roundtrip : forall k x t, pub_ok k -> mpi_ok x ->
  dsaPriv_parse (dsaPriv_ser k x ++ t) = Some (t, k, x).
Proof. exact dsaPriv_roundtrip. Qed.
Print Assumptions C17_dsaPriv_roundtrip.

(* libotr key files: what ExportKeysToFile writes, ImportKeys reads back as the same accounts (every name without a double
   quote, every protocol that is a symbol, every number including nil and negative ones), and DSAPrivateKey.Import reads
   the numbers of the first key back whatever their digit counts *)
From OTR Require Import Bytes.Strconv Bytes.Sexp Bytes.KeyFile Bytes.KeyFileProofs.
Theorem C17_keyfile_roundtrip : forall acs, Forall acct_ok acs -> importKeys (exportAccounts acs) = Some (Some acs).
Proof. exact importKeys_exportAccounts. Qed.
Print Assumptions C17_keyfile_roundtrip.

Theorem C17_keyfile_import_first_key : forall a rest p q g y x, no35 (aName a) -> no35 (aProto a) ->
  aKey a = {| dP := Some (false, p); dQ := Some (false, q); dG := Some (false, g); dY := Some (false, y); dX := Some (false, x) |} ->
  import_priv (exportAccounts (a :: rest)) = Some [p; q; g; y; x].
Proof. exact import_priv_export. Qed.
Print Assumptions C17_keyfile_import_first_key.

Theorem C17_keyfile_hypotheses_met : Forall acct_ok [ex_account].
Proof. exact ex_account_ok. Qed.
Print Assumptions C17_keyfile_hypotheses_met.
Example C17_keyfile_example :
  importKeys (exportAccounts [ex_account; ex_account]) = Some (Some [ex_account; ex_account]) /\
  import_priv (exportAccounts [ex_account]) = Some [4095; 0; 16; 7; 2748].
Proof. split; vm_compute; reflexivity. Qed.
