(* C05 — no data message is ever accepted twice. *)
From OTR Require Import Go.Base Proto.SmpTypes Proto.Keys Proto.KeysProofs Proto.ReplayProofs.
Open Scope N_scope.

(* a message that has been accepted is refused when it arrives again, whatever rotation its acceptance caused *)
Theorem C05_replay_rejected : forall k d x pl k' xk, recvDataMsg k d x = Ok (pl, k', xk) ->
  forall x', match recvDataMsg k' d x' with Ok _ => False | _ => True end.
Proof. exact replay_rejected. Qed.
Print Assumptions C05_replay_rejected.

(* the counter check: once a counter has been accepted for a key pair, no counter up to it passes again,
   and other pairs are not affected *)
Theorem C05_counter_monotone : forall k rk sk ctr,
  (ctr <= ctr_of (counters k) rk sk -> checkMessageCounter k rk sk ctr = Err errConflict) /\
  (ctr_of (counters k) rk sk < ctr -> exists k1, checkMessageCounter k rk sk ctr = Ok k1 /\
     ctr_of (counters k1) rk sk = ctr /\
     (forall o t, (o <> rk \/ t <> sk) -> ctr_of (counters k1) o t = ctr_of (counters k) o t) /\
     ourKeyID k1 = ourKeyID k /\ theirKeyID k1 = theirKeyID k /\ ourCurrent k1 = ourCurrent k /\
     ourPrevious k1 = ourPrevious k /\ theirCurrent k1 = theirCurrent k /\ theirPrevious k1 = theirPrevious k /\
     macHistory k1 = macHistory k /\ oldMACKeys k1 = oldMACKeys k).
Proof. exact checkMessageCounter_spec. Qed.
Print Assumptions C05_counter_monotone.

(* over whole histories: after a data message has been accepted, whatever the party then receives (accepted or
   not) and sends - any number of key rotations on either side - the same message is refused *)
Theorem C05_accepted_at_most_once : forall k d x pl k' xk, recvDataMsg k d x = Ok (pl, k', xk) ->
  forall (evs : list kev) x', match recvDataMsg (fold_left kstep evs k') d x' with Ok _ => False | _ => True end.
Proof. exact accepted_at_most_once. Qed.
Print Assumptions C05_accepted_at_most_once.

(* ---- at conversation level ----
   A data message whose text Receive has delivered is not delivered again, however long the session goes on in between:
   any calls (Receive of anything, Send, SMP, extra key) except End, as long as no security event reports that the
   session was replaced or ended (a later session has other keys: C01 / C10). *)
From OTR Require Import Gen.Consts Proto.Conv Proto.Lifecycle Proto.Once.
Theorem C05_delivered_once_per_session : forall now c ver stag rtag d aux rnd t h now' ver' stag' rtag' aux' rnd',
  let '(c1, r1) := step now c (CReceive (WEnc ver stag rtag (EData d)) aux rnd) in
  r_plain r1 = Some t -> nosec (r_events r1) ->
  no_end h ->
  let '(c2, evs) := run_calls c1 h in
  nosec evs ->
  let '(c3, r3) := step now' c2 (CReceive (WEnc ver' stag' rtag' (EData d)) aux' rnd') in
  r_plain r3 = None.
Proof. exact delivered_once. Qed.
Print Assumptions C05_delivered_once_per_session.
