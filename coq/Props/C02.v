(* C02 — only authentic, unmodified data messages of this session are delivered. *)
From OTR Require Import Go.Base Bytes.Msgs Bytes.MsgsProofs Proto.SmpTypes Proto.Keys Proto.KeysProofs.
Open Scope N_scope.

(* whenever a data message is accepted: it deserialises, its key ids are in the two-by-two window,
   the authenticator verifies under the receiving MAC key of that pair, its counter exceeds the
   stored one, and what is delivered is the payload that was encrypted *)
Theorem C02_accept_checks : forall k d fresh pl k' x, recvDataMsg k d fresh = Ok (pl, k', x) ->
  d_wellformed d = true /\
  exists keys, sessionKeysFor k (af_rk (d_fields d)) (af_sk (d_fields d)) = Ok keys /\
               mac_valid d (receivingKey keys) = true /\
               (exists k1, checkMessageCounter k (af_rk (d_fields d)) (af_sk (d_fields d)) (af_ctr (d_fields d)) = Ok k1) /\
               pl = d_payload d /\ x = extraKey keys.
Proof. exact recv_accept_checks. Qed.
Print Assumptions C02_accept_checks.

(* a verifying authenticator was computed with exactly that key over exactly the header, flag, key ids,
   next DH key, counter and ciphertext that stand in the message: altering any of them, or using a
   disclosed / retired / foreign key, makes verification fail *)
Theorem C02_mac_covers_every_field : forall d key, mac_valid d key = true ->
  d_mac_intact d = true /\ d_mackey d = key /\ d_macover d = d_fields d /\ d_macenc_intact d = d_enc_intact d.
Proof. exact mac_valid_spec. Qed.
Print Assumptions C02_mac_covers_every_field.

Theorem C02_key_ids_in_window : forall k o t keys, sessionKeysFor k o t = Ok keys ->
  o <> 0 /\ t <> 0 /\ (o = ourKeyID k \/ o = ourKeyID k - 1) /\ (t = theirKeyID k \/ t = theirKeyID k - 1).
Proof. exact sessionKeys_window. Qed.
Print Assumptions C02_key_ids_in_window.

(* byte level: the bytes the MAC is computed over are exactly the bytes in front of the authenticator *)
Theorem C02_authenticated_range : forall b c, dataMsg_deser b = Ok c ->
  exists rest, b = dm_cache c ++ dm_auth c ++ rest /\ lenN (dm_auth c) = 20.
Proof. exact dataMsg_mac_range. Qed.
Print Assumptions C02_authenticated_range.

(* ---- at conversation level, every call of every history ----
   A text comes out of Receive only as a plaintext message (with the received-unencrypted event whenever encryption was
   due) or as the text of a data message that arrived while the conversation was encrypted, is well-formed, carries a
   MAC that verifies under the receiving key of the key pair it names (inside the window) over every field, and a
   counter above the one recorded for that pair.  No key-exchange message, no rejected data message and no user call
   returns a text. *)
From OTR Require Import Proto.Conv Proto.Delivery.
Theorem C02_only_authentic_text_is_delivered : forall h c, all_delivered_ok c h.
Proof. exact history_delivers_authentic. Qed.
Print Assumptions C02_only_authentic_text_is_delivered.
