(* C11 — SMP reports success exactly when the secrets match within one session. *)
From Coq Require Import Field.
From OTR Require Import Go.Base Gen.Consts Proto.SmpTypes Proto.Smp Proto.SmpProofs Proto.SmpAlgebra.
Open Scope N_scope.

(* the final comparisons, in exponent form over the field of exponents: for non-degenerate exponents they
   hold iff the two secrets are equal (responder's check and initiator's check) *)
Theorem C11_responder_success_iff_equal_secrets :
  forall (F : Type) (zero one : F) (add mul sub : F -> F -> F) (opp : F -> F) (div : F -> F -> F) (inv : F -> F),
  field_theory zero one add mul sub opp div inv (@eq F) ->
  forall a2 a3 b2 b3 r4a r4b x y : F, a2 <> zero -> a3 <> zero -> b2 <> zero -> b3 <> zero ->
  (mul (Ra F add mul sub a2 a3 b2 r4a r4b x y) b3 = PaPb F mul sub a3 b3 r4a r4b <-> x = y).
Proof. exact smp3_success_iff. Qed.
Print Assumptions C11_responder_success_iff_equal_secrets.

Theorem C11_initiator_success_iff_equal_secrets :
  forall (F : Type) (zero one : F) (add mul sub : F -> F -> F) (opp : F -> F) (div : F -> F -> F) (inv : F -> F),
  field_theory zero one add mul sub opp div inv (@eq F) ->
  forall a2 a3 b2 b3 r4a r4b x y : F, a2 <> zero -> a3 <> zero -> b2 <> zero -> b3 <> zero ->
  (mul (Rb F add mul sub a2 b2 b3 r4a r4b x y) a3 = PaPb F mul sub a3 b3 r4a r4b <-> x = y).
Proof. exact smp4_success_iff. Qed.
Print Assumptions C11_initiator_success_iff_equal_secrets.

(* on the state machine: success is reported only by the handlers of message 3 and message 4, and only after
   every range check, both proofs and the final comparison evaluated to true *)
Theorem C11_success_only_from_final_messages : forall q H s x ty pl rnd,
  In evSuccess (sr_events (smp_receive q H s x ty pl rnd)) -> ty = c_tlvTypeSMP3 \/ ty = c_tlvTypeSMP4.
Proof. exact success_only_from_msg3_or_msg4. Qed.
Print Assumptions C11_success_only_from_final_messages.
