(* C11 — SMP reports success exactly when the secrets match within one session. *)
From Coq Require Import Field.
From OTR Require Import Go.Base Gen.Consts Proto.SmpTypes Proto.Smp Proto.SmpProofs Proto.SmpAlgebra.
Open Scope N_scope.

(* the final comparisons, in exponent form over the field of exponents: for non-degenerate exponents they
   hold iff the two secrets are equal (responder's check and initiator's check) *)
Theorem C11_responder_success_iff_equal_secrets :
  forall (F : Type) (zero one : F) (add mul sub : F -> F -> F) (opp : F -> F) (div : F -> F -> F) (inv : F -> F),
  field_theory zero one add mul sub opp div inv (@eq F) ->
  forall a2 a3 b2 b3 r4a r4b x y : F, a2 <> zero -> a3 <> zero -> b2 <> zero -> b3 <> zero ->
  (mul (Ra F add mul sub a2 a3 b2 r4a r4b x y) b3 = PaPb F mul sub a3 b3 r4a r4b <-> x = y).
Proof. exact smp3_success_iff. Qed.
Print Assumptions C11_responder_success_iff_equal_secrets.

Theorem C11_initiator_success_iff_equal_secrets :
  forall (F : Type) (zero one : F) (add mul sub : F -> F -> F) (opp : F -> F) (div : F -> F -> F) (inv : F -> F),
  field_theory zero one add mul sub opp div inv (@eq F) ->
  forall a2 a3 b2 b3 r4a r4b x y : F, a2 <> zero -> a3 <> zero -> b2 <> zero -> b3 <> zero ->
  (mul (Rb F add mul sub a2 b2 b3 r4a r4b x y) a3 = PaPb F mul sub a3 b3 r4a r4b <-> x = y).
Proof. exact smp4_success_iff. Qed.
Print Assumptions C11_initiator_success_iff_equal_secrets.

(* on the state machine: success is reported only by the handlers of message 3 and message 4, and only after
   every range check, both proofs and the final comparison evaluated to true *)
Theorem C11_success_only_from_final_messages : forall q H s x ty pl rnd,
  In evSuccess (sr_events (smp_receive q H s x ty pl rnd)) -> ty = c_tlvTypeSMP3 \/ ty = c_tlvTypeSMP4.
Proof. exact success_only_from_msg3_or_msg4. Qed.
Print Assumptions C11_success_only_from_final_messages.

(* ---- on the SMP model itself (exponent representation, arithmetic modulo the group order q > 1), for every choice of
   exponents and every hash function: everything an honest party generates passes the peer's checks ... ---- *)
From OTR Require Import Proto.SmpHonest Proto.SmpInst.
Theorem C11_generated_exponent_proof_verifies : forall q, 1 < q -> forall H r a ix,
  let '(c, d) := genZKP q H r a ix in verifyZKP q H d (el_exp q g1e a) c ix = true.
Proof. exact zkp1_ok. Qed.
Print Assumptions C11_generated_exponent_proof_verifies.

Theorem C11_generated_PQ_proof_verifies : forall q, 1 < q -> forall H e2 e3 r4 r5 r6 y ix,
  let g2 := EKnown false e2 in let g3 := EKnown false e3 in
  let pb := el_exp q g3 r4 in
  let qb := el_mul q (el_exp q g1e r4) (el_exp q g2 y) in
  let cp := H ix [el_exp q g3 r5; el_mul q (el_exp q g1e r5) (el_exp q g2 r6)] in
  verifyZKP2 q H g2 g3 (subq q r5 (r4 * cp)) (subq q r6 (y * cp)) pb qb cp ix = true.
Proof. exact zkp2_ok. Qed.
Print Assumptions C11_generated_PQ_proof_verifies.

Theorem C11_generated_R_proof_verifies : forall q, 1 < q -> forall H e a3 r7 ix,
  let qaqb := EKnown false e in
  let ra := el_exp q qaqb a3 in
  let cr := H ix [el_exp q g1e r7; el_exp q qaqb r7] in
  verifyZKP4 q H cr (el_exp q g1e a3) (subq q r7 (a3 * cr)) qaqb ra ix = true.
Proof. exact zkp4_ok. Qed.
Print Assumptions C11_generated_R_proof_verifies.

(* ... and with equal secrets the final comparison of BOTH sides holds (Ra^b3 = Pa/Pb for the responder, Rb^a3 = Pa/Pb
   for the initiator), whatever blinding exponents were drawn *)
Theorem C11_equal_secrets_pass_both_final_checks : forall q, 1 < q -> forall e2 e3 a3 b3 r4a r4b x y,
  eqm q e3 (a3 * b3) -> x = y ->
  let g2 := EKnown false e2 in let g3 := EKnown false e3 in
  let pa := el_exp q g3 r4a in let qa := el_mul q (el_exp q g1e r4a) (el_exp q g2 x) in
  let pb := el_exp q g3 r4b in let qb := el_mul q (el_exp q g1e r4b) (el_exp q g2 y) in
  exists qaqb papb, el_div q qa qb = Some qaqb /\ el_div q pa pb = Some papb /\
    el_eqb q (el_exp q (el_exp q qaqb a3) b3) papb = true /\
    el_eqb q (el_exp q (el_exp q qaqb b3) a3) papb = true.
Proof. exact final_equations_both. Qed.
Print Assumptions C11_equal_secrets_pass_both_final_checks.

(* a complete run of the two state machines of the model with the real group order: equal secrets end in success on
   both sides, different secrets in failure *)
Definition c11A := {| x_encrypted := true; x_v3 := true; x_ourFp := 1; x_theirFp := 2; x_ssid := (5, 6) |}.
Definition c11B := {| x_encrypted := true; x_v3 := true; x_ourFp := 2; x_theirFp := 1; x_ssid := (5, 6) |}.
Definition c11_run (secA secB : bytes) : list N * list N :=
  let a1 := smp_user_i smp_init c11A (SStart [] secA) [3; 5; 7; 11] in
  match sr_reply a1 with
  | (ty1, pl1) :: _ =>
      let b1 := smp_receive_i (smp_ensure smp_init) c11B ty1 pl1 [] in
      let b2 := smp_user_i (sr_st b1) c11B (SProvide secB) [13; 17; 19; 23; 29; 31; 37] in
      match sr_reply b2 with
      | (ty2, pl2) :: _ =>
          let a2 := smp_receive_i (smp_ensure (sr_st a1)) c11A ty2 pl2 [41; 43; 47; 53] in
          match sr_reply a2 with
          | (ty3, pl3) :: _ =>
              let b3 := smp_receive_i (smp_ensure (sr_st b2)) c11B ty3 pl3 [59] in
              match sr_reply b3 with
              | (ty4, pl4) :: _ => (sr_events b3, sr_events (smp_receive_i (smp_ensure (sr_st a2)) c11A ty4 pl4 []))
              | [] => (sr_events b3, [])
              end
          | [] => ([], sr_events a2)
          end
      | [] => ([], [])
      end
  | [] => ([], [])
  end.
Example C11_honest_run_equal_secrets : c11_run [1; 2; 3] [1; 2; 3] = ([evSuccess], [evSuccess]).
Proof. vm_compute; reflexivity. Qed.
Example C11_honest_run_different_secrets : fst (c11_run [1; 2; 3] [1; 2; 4]) = [evFailure].
Proof. vm_compute; reflexivity. Qed.
