(* C19 — a conversation's retained state is bounded, whatever the traffic. *)
From OTR Require Import Go.Base Proto.SmpTypes Proto.Keys Proto.KeysProofs.
Open Scope N_scope.

(* the invariant: counter and MAC-key entries are unique per key pair and lie in the two-by-two window *)
Theorem C19_invariant_bounds_state : forall k, KInv k ->
  (length (counters k) <= 4)%nat /\ (length (macHistory k) <= 4)%nat.
Proof. exact KInv_bounded. Qed.
Print Assumptions C19_invariant_bounds_state.

(* it holds at session start and is preserved by every accepted message (a rejected one changes nothing,
   C06) and by every message sent — for arbitrary, also forged or replayed, input *)
Theorem C19_invariant_at_session_start : forall k, counters k = [] -> macHistory k = [] -> KInv k.
Proof. exact KInv_fresh_session. Qed.
Print Assumptions C19_invariant_at_session_start.

Theorem C19_invariant_preserved_by_receive : forall k d x pl k' xk, KInv k -> recvDataMsg k d x = Ok (pl, k', xk) -> KInv k'.
Proof. exact KInv_recv. Qed.
Print Assumptions C19_invariant_preserved_by_receive.

Theorem C19_invariant_preserved_by_send : forall k h flag pl d k' xk, KInv k -> genDataMsg k h flag pl = Ok (d, k', xk) -> KInv k'.
Proof. exact KInv_gen. Qed.
Print Assumptions C19_invariant_preserved_by_send.
