(* C19 — a conversation's retained state is bounded, whatever the traffic. *)
From OTR Require Import Go.Base Proto.SmpTypes Proto.Keys Proto.KeysProofs.
Open Scope N_scope.

(* the invariant: counter and MAC-key entries are unique per key pair and lie in the two-by-two window *)
Theorem C19_invariant_bounds_state : forall k, KInv k ->
  (length (counters k) <= 4)%nat /\ (length (macHistory k) <= 4)%nat.
Proof. exact KInv_bounded. Qed.
Print Assumptions C19_invariant_bounds_state.

(* it holds at session start and is preserved by every accepted message (a rejected one changes nothing,
   C06) and by every message sent — for arbitrary, also forged or replayed, input *)
Theorem C19_invariant_at_session_start : forall k, counters k = [] -> macHistory k = [] -> KInv k.
Proof. exact KInv_fresh_session. Qed.
Print Assumptions C19_invariant_at_session_start.

Theorem C19_invariant_preserved_by_receive : forall k d x pl k' xk, KInv k -> recvDataMsg k d x = Ok (pl, k', xk) -> KInv k'.
Proof. exact KInv_recv. Qed.
Print Assumptions C19_invariant_preserved_by_receive.

Theorem C19_invariant_preserved_by_send : forall k h flag pl d k' xk, KInv k -> genDataMsg k h flag pl = Ok (d, k', xk) -> KInv k'.
Proof. exact KInv_gen. Qed.
Print Assumptions C19_invariant_preserved_by_send.

(* ---- at conversation level, over every history ----
   Whatever is sent to a conversation (genuine, forged, replayed, garbage), whatever the user does and however many key
   exchanges and rotations happen: the session's key context keeps at most 4 counter entries and 4 MAC-key entries (one
   per key pair of the window), the key context an exchange is preparing keeps none, and the resend queue holds at most
   the most recent message - more than one text only while no session exists and the texts wait for the key exchange. *)
From OTR Require Import Gen.Consts Proto.Conv Proto.Lifecycle Proto.Bounded.
Theorem C19_retained_key_state_bounded : forall who pol key h,
  let c := fst (run_calls (conv_init who pol key) h) in
  (length (counters (c_keys c)) <= 4)%nat /\ (length (macHistory (c_keys c)) <= 4)%nat /\
  counters (a_keys (the_ake c)) = [] /\ macHistory (a_keys (the_ake c)) = [].
Proof. exact retained_key_state_bounded. Qed.
Print Assumptions C19_retained_key_state_bounded.

Theorem C19_resend_queue_bounded : forall who pol key h,
  let c := fst (run_calls (conv_init who pol key) h) in
  (length (c_resendMsgs c) <= 1)%nat \/ (c_msgState c <> c_encrypted /\ c_mayRetransmit c <> c_noRetransmit).
Proof. exact resend_queue_bounded. Qed.
Print Assumptions C19_resend_queue_bounded.

(* ---- the MAC keys waiting for disclosure, two-party system, every schedule ----
   On the key-management model that is compared with the code (the system of C04: real key contexts of both sides, two
   FIFO queues, any interleaving of sends and in-order deliveries, any number of messages in flight, any number of
   rotations): at most 4 MAC keys ever wait for disclosure on either side - between two of its own sends a party rotates
   its own key at most once and the peer's key at most once, each rotation retires at most 2 recorded keys, and the next
   message sent flushes the list (Proto/PendingBound.v). *)
From OTR Require Import Proto.Ratchet Proto.RatchetKeys Proto.PendingBound.
Theorem C19_pending_disclosure_bounded : forall a1 a2 b1 b2 sched,
  own true a1 -> own true a2 -> own false b1 -> own false b2 -> Forall cev_ok sched ->
  let n := fold_left cstep sched (cinit a1 a2 b1 b2) in
  (length (oldMACKeys (kA n)) <= 4)%nat /\ (length (oldMACKeys (kB n)) <= 4)%nat.
Proof. exact pending_disclosure_bounded_after_ake. Qed.
Print Assumptions C19_pending_disclosure_bounded.
