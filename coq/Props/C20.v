(* C20 — independent conversations do not interfere, also when run concurrently. *)
From Coq Require Import List NArith.
From OTR Require Import Gen.Globals Proto.Shared Proto.Conv.
Import ListNotations.
Open Scope nat_scope.

(* Over the table generated from the current source (every assignment, store, ++/--, copy, append, address-of,
   pointer-method call and escape that can reach memory of a package-level variable): nothing outside package
   initialisation writes shared memory, other than appends to / hand-outs of exact-capacity slices. *)
Theorem C20_no_shared_writes : unsafe_writes = [].
Proof. vm_compute; reflexivity. Qed.
Print Assumptions C20_no_shared_writes.

(* every slice that is used as an append prefix is in the list whose capacities are checked at run time *)
Theorem C20_append_prefixes_are_checked : forallb (fun v => mem v exact_cap_vars) append_prefix_vars = true.
Proof. vm_compute; reflexivity. Qed.
Print Assumptions C20_append_prefixes_are_checked.

(* Go's append on a slice without spare capacity leaves every existing array untouched *)
Theorem C20_append_exact_cap_preserves : forall (A : Type) (m : store A) (s : slice) (xs : list A),
  s_cap s = s_len s -> s_off s + s_len s <= length (arr A m (s_arr s)) ->
  forall i, i < length m -> arr A (fst (append A m s xs)) i = arr A m i.
Proof. exact append_exact_cap_preserves. Qed.
Print Assumptions C20_append_exact_cap_preserves.

(* The conversation machine reads nothing but its own state and constants: under every interleaving of calls
   on any number of conversations, each one ends in the state and produces the results it has when run alone. *)
Definition conv_step (_ : unit) (c : conv) (x : N * call) : conv * result := step (fst x) c (snd x).

Theorem C20_interleaving_eq_sequential : forall sched cs k c,
  nth_error cs k = Some c ->
  nth_error (fst (run unit conv (N * call) result conv_step tt cs sched)) k
    = Some (fst (alone unit conv (N * call) result conv_step tt c (proj k sched))) /\
  proj k (snd (run unit conv (N * call) result conv_step tt cs sched))
    = snd (alone unit conv (N * call) result conv_step tt c (proj k sched)).
Proof. exact (interleaving_eq_sequential unit conv (N * call) result conv_step tt). Qed.
Print Assumptions C20_interleaving_eq_sequential.
