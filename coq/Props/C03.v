(* C03 — user text never reaches the wire in readable form when encryption is due. *)
From OTR Require Import Go.Base Gen.Consts Bytes.Text Proto.SmpTypes Proto.Keys Proto.Smp Proto.Conv Proto.ConvProofs.
From RecordUpdate Require Import RecordSet.
Import RecordSetNotations.
Open Scope N_scope.

(* finished (the peer ended the session): Send emits nothing that is not already pending as an error reply *)
Theorem C03_send_finished_refuses : forall now c t,
  isOTREnabled (c_policies c) = true -> c_msgState c = c_finished ->
  let '(c', r) := step now c (CSend t) in
  r_out r = c_injections c /\ r_err r = 1 /\ c' = c <| c_injections := [] |>.
Proof. exact send_finished_refuses. Qed.
Print Assumptions C03_send_finished_refuses.

(* plaintext under require-encryption: only the query message goes out, the text is queued *)
Theorem C03_send_require_encryption_queues : forall now c t,
  isOTREnabled (c_policies c) = true -> c_msgState c = c_plainText -> has (c_policies c) c_requireEncryption = true ->
  let '(c', r) := step now c (CSend t) in
  r_out r = queryMessage c :: c_injections c /\ r_err r = 0 /\
  c_resendMsgs c' = c_resendMsgs c ++ [t] /\ c_mayRetransmit c' = c_retransmitExact /\ c_msgState c' = c_plainText.
Proof. exact send_require_encryption_queues. Qed.
Print Assumptions C03_send_require_encryption_queues.

(* encrypted: whatever Send emits is an error reply or a data message whose payload (the text) is
   encrypted and authenticated under the sending key derived from the current DH pair *)
Theorem C03_send_encrypted_only_ciphertext : forall now c t,
  isOTREnabled (c_policies c) = true -> c_msgState c = c_encrypted ->
  Forall is_error_reply (c_injections c) ->
  let '(c', r) := step now c (CSend t) in
  forall w, In w (r_out r) ->
    is_error_reply w \/
    exists ver stag rtag d keys,
      w = WEnc ver stag rtag (EData d) /\
      sessionKeysFor (c_keys c) (ourKeyID (c_keys c) - 1) (theirKeyID (c_keys c)) = Ok keys /\
      af_enckey (d_fields d) = sendingKey keys /\ d_mackey d = sendingKey keys /\ d_enc_intact d = true /\
      p_text (d_payload d) = t.
Proof. exact send_encrypted_only_ciphertext. Qed.
Print Assumptions C03_send_encrypted_only_ciphertext.

(* ---- over every history ----
   Whatever is sent to a new conversation and whatever the user does (Send, End, SMP, extra key, in any order), a
   plaintext message leaves only as the direct output of Send(t), carrying that very text, and only at a moment when OTR
   is switched off or the conversation is in plaintext state without the require-encryption policy: never while it is
   encrypted, never while it is finished, never under require-encryption, and never later (texts queued while waiting
   for encryption, the message resent on request, replies built while receiving and the End / SMP / extra-key calls all
   leave as queries, error messages or encoded messages only). *)
From OTR Require Import Proto.NoPlain.
Theorem C03_plaintext_only_from_send_when_allowed : forall who pol key h, all_plain_ok (conv_init who pol key) h.
Proof. exact no_plaintext_when_encryption_is_due. Qed.
Print Assumptions C03_plaintext_only_from_send_when_allowed.

(* the single step behind it, for every state whose stored wires are clean (which every reachable state is) *)
Theorem C03_call_emits_plaintext_only_from_send_when_allowed : forall now c op, SInv c ->
  let '(c', r) := step now c op in SInv c' /\ plain_ok c op r.
Proof. exact step_plain. Qed.
Print Assumptions C03_call_emits_plaintext_only_from_send_when_allowed.
