(* C08 — retired secrets and old plaintext are not retained. *)
From OTR Require Import Go.Base Gen.Consts Corr.Val Proto.SmpTypes Proto.Keys Proto.Smp Proto.Conv Proto.Secrets Proto.SecretsProofs.
Open Scope N_scope.

(* over every history of key rotations, the private keys held are the two installed last ... *)
Theorem C08_rotations_keep_last_two : forall steps k h,
  last2 h = [ourPrevious k; ourCurrent k] ->
  last2 (snd (run_rot k h steps)) = [ourPrevious (fst (run_rot k h steps)); ourCurrent (fst (run_rot k h steps))].
Proof. exact rotations_keep_last_two. Qed.
Print Assumptions C08_rotations_keep_last_two.

(* ... so an exponent of an older generation is not held any more *)
Theorem C08_old_generation_not_held : forall steps k h e,
  last2 h = [ourPrevious k; ourCurrent k] ->
  NoDup (snd (run_rot k h steps)) ->
  In (Some e) (firstn (length (snd (run_rot k h steps)) - 2) (snd (run_rot k h steps))) ->
  ~ In e (dh_exps (fst (run_rot k h steps))).
Proof. exact old_generation_not_held. Qed.
Print Assumptions C08_old_generation_not_held.

(* non-vacuity: two rotations from a fresh session drop the first key *)
Example C08_rotation_example :
  let k0 := {| ourKeyID := 2; theirKeyID := 1; ourCurrent := Some 11; ourPrevious := Some 10; theirCurrent := Some 20;
               theirPrevious := None; counters := []; macHistory := []; oldMACKeys := [] |} in
  dh_exps (fst (run_rot k0 [Some 10; Some 11] [(2, 12); (7, 99); (3, 13)])) = [13; 12].
Proof. vm_compute; reflexivity. Qed.

(* accepting a data message either keeps both private keys or installs the fresh one over the current one *)
Theorem C08_receive_rotation_is_install : forall k d x pl k' xk, recvDataMsg k d x = Ok (pl, k', xk) ->
  (ourCurrent k' = ourCurrent k /\ ourPrevious k' = ourPrevious k) \/
  (ourCurrent k' = Some x /\ ourPrevious k' = ourCurrent k).
Proof. exact recv_rotation_is_install. Qed.
Print Assumptions C08_receive_rotation_is_install.

(* End, in every state *)
Theorem C08_end_leaves_nothing : forall now c,
  let c' := fst (step now c CEnd) in
  held_exps c' = [] /\ ake_r_held c' = false /\ ake_keys_held c' = false /\
  (c_msgState c = c_encrypted -> smp_held c' = false) /\
  (c_msgState c <> c_plainText -> c_resendMsgs c' = []).
Proof. exact end_leaves_nothing. Qed.
Print Assumptions C08_end_leaves_nothing.

(* completion of a key exchange *)
Theorem C08_ake_completion_clears_ephemerals : forall now c ev,
  let '(_, c', _) := akeHasFinished now c ev in
  ake_exps c' = [] /\ ake_r_held c' = false /\ ake_keys_held c' = false /\
  ourPrevious (c_keys c') = ourCurrent (a_keys (the_ake c)) /\
  ourCurrent (c_keys c') = Some (fst (draw c)).
Proof. exact ake_completion_clears_ephemerals. Qed.
Print Assumptions C08_ake_completion_clears_ephemerals.

(* the peer's disconnect *)
Theorem C08_disconnect_leaves_nothing : forall rnd x acc c ev,
  let '(_, c', _) := processTLVs rnd [TDisconnected] x acc c ev in
  held_exps c' = [] /\ ake_r_held c' = false /\ ake_keys_held c' = false /\ smp_held c' = false /\
  c_msgState c' = c_finished.
Proof. exact disconnect_leaves_nothing. Qed.
Print Assumptions C08_disconnect_leaves_nothing.

(* sent text: a data message keeps at most the text it carries *)
Theorem C08_data_message_retains_last_only : forall text flag tlvs c ev,
  let '(_, c', _) := genDataMsgWithFlag text flag tlvs false c ev in
  c_resendMsgs c' = [text] \/ c_resendMsgs c' = c_resendMsgs c.
Proof. exact data_message_retains_last_only. Qed.
Print Assumptions C08_data_message_retains_last_only.

(* ---- over every history ----
   Whenever a conversation is not encrypted - before a session, after End(), after the peer's disconnect, whatever
   happened before and whatever is sent to it - its key context holds no D-H private key, no earlier peer key, no
   counters and no MAC keys (neither in use nor waiting to be disclosed): every session secret is gone. *)
From OTR Require Import Proto.Lifecycle Proto.SessionSecrets.
Theorem C08_no_session_secret_outside_a_session : forall who pol key h,
  let c := fst (run_calls (conv_init who pol key) h) in
  c_msgState c <> c_encrypted -> keys_gone (c_keys c).
Proof. exact no_session_secret_outside_a_session. Qed.
Print Assumptions C08_no_session_secret_outside_a_session.
