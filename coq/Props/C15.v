(* C15 — instance tags isolate conversations (routing helper part; the conversation-level
   theorems are added by Proto/Tags). *)
From OTR Require Import Go.Base Bytes.Wire Bytes.B64 Bytes.Frag Bytes.TagsProofs.
Open Scope N_scope.

Theorem C15_extract_tags_encoded : forall ty s r body,
  ty < 256 -> s < 4294967296 -> r < 4294967296 -> wfb body ->
  ExtractInstanceTags (encode (v3_header ty s r ++ body)) = Ok (Some (r, s)).
Proof. exact extract_tags_encoded. Qed.
Print Assumptions C15_extract_tags_encoded.

Theorem C15_extract_tags_fragment : forall n total s r rest,
  s < 4294967296 -> r < 4294967296 ->
  ExtractInstanceTags (fragPrefixV3 n total s r ++ rest) = Ok (Some (r, s)).
Proof. exact extract_tags_fragment. Qed.
Print Assumptions C15_extract_tags_fragment.

Theorem C15_extract_tags_v2_fragment : forall rest,
  ExtractInstanceTags (Gen.Consts.v_otrv2FragmentationPrefix ++ rest) = Ok None.
Proof. exact extract_tags_v2_fragment. Qed.
Print Assumptions C15_extract_tags_v2_fragment.

Example C15_example :
  ExtractInstanceTags (encode (v3_header 3 4660 22136 ++ [1;2;3])) = Ok (Some (22136, 4660)).
Proof. vm_compute; reflexivity. Qed.

(* conversation level: a version 3 message for / from another instance is dropped before its body is looked at *)
From OTR Require Import Gen.Consts Bytes.Text Proto.SmpTypes Proto.Keys Proto.Smp Proto.SmpInst Proto.Conv Proto.ConvProofs.
From RecordUpdate Require Import RecordSet.
Import RecordSetNotations.
Theorem C15_foreign_instance_ignored : forall now c stag rtag body aux rnd,
  isOTREnabled (c_policies c) = true -> c_version c = 3 ->
  c_minValidInstanceTag <= stag -> (rtag = 0 \/ c_minValidInstanceTag <= rtag) ->
  ((rtag <> 0 /\ rtag <> c_ourTag c) \/ (c_theirTag c <> 0 /\ stag <> c_theirTag c)) ->
  let '(c', r) := step now c (CReceive (WEnc 3 stag rtag body) aux rnd) in
  r_plain r = None /\ r_out r = c_injections c /\ r_err r = 0 /\
  r_events r = [c_MessageEventReceivedMessageForOtherInstance] /\
  c' = c <| c_injections := [] |>.
Proof. exact foreign_instance_ignored. Qed.
Print Assumptions C15_foreign_instance_ignored.
