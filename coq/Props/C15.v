(* C15 — instance tags isolate conversations (routing helper part; the conversation-level
   theorems are added by Proto/Tags). *)
From OTR Require Import Go.Base Bytes.Wire Bytes.B64 Bytes.Frag Bytes.TagsProofs.
Open Scope N_scope.

Theorem C15_extract_tags_encoded : forall ty s r body,
  ty < 256 -> s < 4294967296 -> r < 4294967296 -> wfb body ->
  ExtractInstanceTags (encode (v3_header ty s r ++ body)) = Ok (Some (r, s)).
Proof. exact extract_tags_encoded. Qed.
Print Assumptions C15_extract_tags_encoded.

Theorem C15_extract_tags_fragment : forall n total s r rest,
  s < 4294967296 -> r < 4294967296 ->
  ExtractInstanceTags (fragPrefixV3 n total s r ++ rest) = Ok (Some (r, s)).
Proof. exact extract_tags_fragment. Qed.
Print Assumptions C15_extract_tags_fragment.

Theorem C15_extract_tags_v2_fragment : forall rest,
  ExtractInstanceTags (Gen.Consts.v_otrv2FragmentationPrefix ++ rest) = Ok None.
Proof. exact extract_tags_v2_fragment. Qed.
Print Assumptions C15_extract_tags_v2_fragment.

Example C15_example :
  ExtractInstanceTags (encode (v3_header 3 4660 22136 ++ [1;2;3])) = Ok (Some (22136, 4660)).
Proof. vm_compute; reflexivity. Qed.

(* conversation level: a version 3 message for / from another instance is dropped before its body is looked at *)
From OTR Require Import Gen.Consts Bytes.Text Proto.SmpTypes Proto.Keys Proto.Smp Proto.SmpInst Proto.Conv Proto.ConvProofs.
From RecordUpdate Require Import RecordSet.
Import RecordSetNotations.
Theorem C15_foreign_instance_ignored : forall now c stag rtag body aux rnd,
  isOTREnabled (c_policies c) = true -> c_version c = 3 ->
  c_minValidInstanceTag <= stag -> (rtag = 0 \/ c_minValidInstanceTag <= rtag) ->
  ((rtag <> 0 /\ rtag <> c_ourTag c) \/ (c_theirTag c <> 0 /\ stag <> c_theirTag c)) ->
  let '(c', r) := step now c (CReceive (WEnc 3 stag rtag body) aux rnd) in
  r_plain r = None /\ r_out r = c_injections c /\ r_err r = 0 /\
  r_events r = [c_MessageEventReceivedMessageForOtherInstance] /\
  c' = c <| c_injections := [] |>.
Proof. exact foreign_instance_ignored. Qed.
Print Assumptions C15_foreign_instance_ignored.

(* over histories (Proto/Tags.v): after any history of a new conversation its own instance tag is 0 (not drawn yet) or at
   least 0x100 and the peer instance it is bound to is 0 (not bound) or at least 0x100; one call never changes a tag
   that is set - in particular no message, whatever tags it claims, rebinds the conversation *)
From OTR Require Import Proto.Lifecycle Proto.Tags.
Theorem C15_tags_legal_after_every_history : forall who pol key h,
  let c := end_of (conv_init who pol key) h in tag_ok (c_ourTag c) /\ tag_ok (c_theirTag c).
Proof. exact tags_of_a_new_conversation. Qed.
Print Assumptions C15_tags_legal_after_every_history.

Theorem C15_tags_once_set_never_change : forall h c, tag_ok (c_ourTag c) -> tag_ok (c_theirTag c) ->
  tag_ok (c_ourTag (end_of c h)) /\ tag_ok (c_theirTag (end_of c h)) /\
  (c_ourTag c <> 0 -> c_ourTag (end_of c h) = c_ourTag c) /\ (c_theirTag c <> 0 -> c_theirTag (end_of c h) = c_theirTag c).
Proof. exact history_tags. Qed.
Print Assumptions C15_tags_once_set_never_change.

(* a first message from instance 300 binds, a later one claiming instance 400 does not rebind, one claiming the
   reserved tag 200 does not bind *)
Example C15_binding_example :
  let m tag := CReceive (WEnc 3 tag 0 (EAke (BCommit 7 8 8))) 0 [] in
  let c1 := fst (step 0 (conv_init 1 6 1) (m 300)) in
  c_theirTag c1 = 300 /\ c_theirTag (fst (step 0 c1 (m 400))) = 300 /\ c_theirTag (fst (step 0 (conv_init 1 6 1) (m 200))) = 0.
Proof. vm_compute; auto. Qed.
