(* C09 — MAC keys are disclosed only once retired, and then they are disclosed. *)
From OTR Require Import Go.Base Proto.SmpTypes Proto.Keys Proto.KeysProofs.
Open Scope N_scope.

(* a key becomes pending for disclosure only when a rotation takes its key pair out of the window ... *)
Theorem C09_our_rotation_discloses_only_retired : forall k rk x key, 0 < ourKeyID k ->
  In key (oldMACKeys (rotateOurKeys k rk x)) -> In key (oldMACKeys k) \/
  exists u, In u (macHistory k) /\ mu_key u = key /\ mu_our u + 1 < ourKeyID (rotateOurKeys k rk x).
Proof. exact our_rotation_discloses_only_retired. Qed.
Print Assumptions C09_our_rotation_discloses_only_retired.

Theorem C09_their_rotation_discloses_only_retired : forall k sk y key, 0 < theirKeyID k ->
  In key (oldMACKeys (rotateTheirKey k sk y)) -> In key (oldMACKeys k) \/
  exists u, In u (macHistory k) /\ mu_key u = key /\ mu_their u + 1 < theirKeyID (rotateTheirKey k sk y).
Proof. exact their_rotation_discloses_only_retired. Qed.
Print Assumptions C09_their_rotation_discloses_only_retired.

(* ... and from then on the discloser refuses every message for that pair *)
Theorem C09_retired_pair_refused : forall k o t, (o + 1 < ourKeyID k \/ t + 1 < theirKeyID k) ->
  forall keys, sessionKeysFor k o t <> Ok keys.
Proof. exact retired_pair_refused. Qed.
Print Assumptions C09_retired_pair_refused.

(* completeness: a rotation never loses a recorded key — it stays recorded or becomes pending ... *)
Theorem C09_our_rotation_keeps_or_discloses : forall k rk x u, In u (macHistory k) ->
  In u (macHistory (rotateOurKeys k rk x)) \/ In (mu_key u) (oldMACKeys (rotateOurKeys k rk x)).
Proof. exact our_rotation_keeps_or_discloses. Qed.
Print Assumptions C09_our_rotation_keeps_or_discloses.

Theorem C09_their_rotation_keeps_or_discloses : forall k sk y u, In u (macHistory k) ->
  In u (macHistory (rotateTheirKey k sk y)) \/ In (mu_key u) (oldMACKeys (rotateTheirKey k sk y)).
Proof. exact their_rotation_keeps_or_discloses. Qed.
Print Assumptions C09_their_rotation_keeps_or_discloses.

(* ... and the next data message carries everything that is pending *)
Theorem C09_send_discloses_all_pending : forall k h flag pl d k' xk, genDataMsg k h flag pl = Ok (d, k', xk) ->
  d_old d = oldMACKeys k /\ oldMACKeys k' = [].
Proof. exact gen_discloses_all_pending. Qed.
Print Assumptions C09_send_discloses_all_pending.

(* over whole histories: a receiving MAC key that has been recorded as used is, at every later moment of any history of
   receptions and sends, still recorded, or waiting to be disclosed, or has gone out in a data message that was sent *)
From OTR Require Import Proto.ReplayProofs Proto.DiscloseProofs.
Theorem C09_used_key_never_lost : forall evs k out key, accounted key k out ->
  accounted key (fst (krun k evs out)) (snd (krun k evs out)).
Proof. exact used_key_never_lost. Qed.
Print Assumptions C09_used_key_never_lost.

(* first half over whole histories, at the level of key values: in every history after a key exchange in which drawn
   exponents and the next keys the peer announces are new, whatever waits for disclosure - exactly what the next data
   message discloses (C09_send_discloses_all_pending) - is a key the discloser accepts nothing under any more: no key
   pair it can still look up has it as its receiving MAC key; and it stays so after the disclosing message *)
From OTR Require Import Proto.Ratchet Proto.RatchetKeys Proto.DiscloseSound.
Theorem C09_disclosed_keys_are_dead : forall evs a1 a2 b1 out,
  ours a1 -> ours a2 -> a1 <> a2 -> theirs b1 ->
  fresh_hist (after_ake a1 a2 b1) [a1; a2] [b1] evs ->
  let k := fst (krun (after_ake a1 a2 b1) evs out) in
  forall key, In key (oldMACKeys k) -> forall o t keys, sessionKeysFor k o t = Ok keys -> receivingKey keys <> key.
Proof. exact disclosed_keys_are_dead. Qed.
Print Assumptions C09_disclosed_keys_are_dead.

Theorem C09_disclosed_keys_stay_dead : forall k UO UT h flag pl d k' xk, DI k UO UT -> genDataMsg k h flag pl = Ok (d, k', xk) ->
  forall key, In key (d_old d) -> forall o t keys, sessionKeysFor k' o t = Ok keys -> receivingKey keys <> key.
Proof. exact disclosed_keys_stay_dead. Qed.
Print Assumptions C09_disclosed_keys_stay_dead.

Theorem C09_invariant_over_histories : forall evs k UO UT out, DI k UO UT -> fresh_hist k UO UT evs ->
  exists UO' UT', DI (fst (krun k evs out)) UO' UT'.
Proof. exact DI_history. Qed.
Print Assumptions C09_invariant_over_histories.

Example C09_history_example :
  fresh_hist (after_ake 2 4 1) [2; 4] [1] ex_hist /\
  length (oldMACKeys (fst (krun (after_ake 2 4 1) ex_hist []))) = 2%nat.
Proof. exact ex_hist_fresh_and_pending. Qed.
