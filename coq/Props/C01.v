(* C01 — the key exchange authenticates the peer and both sides agree on the session. *)
From OTR Require Import Go.Base Gen.Consts Proto.SmpTypes Proto.Keys Proto.Smp Proto.Conv Proto.ConvProofs Proto.KeysProofs.
Open Scope N_scope.

(* the reported peer key changes only when: the MAC over the encrypted signature verifies under m2 of the
   exchange's shared secret, it decrypts under c, and the signature was made by the owner of the key it
   carries over M = (m1, their DH value, our DH value, that key, key id).  Otherwise nothing changes. *)
Theorem C01_peer_key_adopted_only_after_all_checks : forall es mac base c ev,
  let '(ok, c', ev') := processEncryptedSig es mac base c ev in
  ev' = ev /\
  (ok = true ->
     em_intact mac = true /\ em_key mac = {| ak_sh := ake_shared c; ak_which := base + 2 |} /\ em_over mac = es /\
     es_ckey es = {| ak_sh := ake_shared c; ak_which := base |} /\ es_parses es = true /\
     es_signer es = es_pub es /\
     es_over es = {| mb_key := {| ak_sh := ake_shared c; ak_which := base + 1 |};
                     mb_gfirst := ake_theirs c; mb_gsecond := ake_ours c; mb_pub := es_pub es; mb_keyid := es_keyid es |} /\
     c_theirKey c' = Some (es_pub es) /\ c_msgState c' = c_msgState c /\ c_ssid c' = c_ssid c) /\
  (ok = false -> c' = c).
Proof. exact processEncryptedSig_spec. Qed.
Print Assumptions C01_peer_key_adopted_only_after_all_checks.

(* degenerate DH values (0, 1, p-1, p, p+1, ...) never pass the range check *)
Theorem C01_out_of_range_group_value_rejected : forall e, junk_base <= e -> e < junk_base + 16 -> isGroupElement e = false.
Proof. exact out_of_range_group_value_rejected. Qed.
Print Assumptions C01_out_of_range_group_value_rejected.

(* both ends of an exchange derive mirrored data keys, so each can read what the other sends *)
Theorem C01_agreement_keys_mirror : forall a b, a <> b ->
  sendingKey (calcSessionKeys a b) = receivingKey (calcSessionKeys b a) /\
  receivingKey (calcSessionKeys a b) = sendingKey (calcSessionKeys b a) /\
  extraKey (calcSessionKeys a b) = extraKey (calcSessionKeys b a).
Proof. exact session_keys_mirror. Qed.
Print Assumptions C01_agreement_keys_mirror.

(* completing an exchange installs the session id and role of THAT exchange *)
Theorem C01_completion_reports_this_exchange : forall now c ev,
  let '(_, c', ev') := akeHasFinished now c ev in
  c_msgState c' = c_encrypted /\
  ev' = ev ++ [evSec (if c_msgState c =? c_encrypted then c_StillSecure else c_GoneSecure)] /\
  c_ssid c' = a_ssid (the_ake c) /\ c_sentRevealSig c' = a_sentRevealSig (the_ake c) /\
  c_lastMsgStateChange c' = Some now /\
  ourKeyID (c_keys c') = ourKeyID (a_keys (the_ake c)) + 1 /\ theirKeyID (c_keys c') = theirKeyID (a_keys (the_ake c)) /\
  ourPrevious (c_keys c') = ourCurrent (a_keys (the_ake c)) /\
  counters (c_keys c') = counters (a_keys (the_ake c)) /\ macHistory (c_keys c') = macHistory (a_keys (the_ake c)).
Proof. exact akeHasFinished_spec. Qed.
Print Assumptions C01_completion_reports_this_exchange.
