(* C01 — the key exchange authenticates the peer and both sides agree on the session. *)
From OTR Require Import Go.Base Gen.Consts Proto.SmpTypes Proto.Keys Proto.Smp Proto.Conv Proto.ConvProofs Proto.KeysProofs.
Open Scope N_scope.

(* the reported peer key changes only when: the MAC over the encrypted signature verifies under m2 of the
   exchange's shared secret, it decrypts under c, and the signature was made by the owner of the key it
   carries over M = (m1, their DH value, our DH value, that key, key id).  Otherwise nothing changes. *)
Theorem C01_peer_key_adopted_only_after_all_checks : forall es mac base c ev,
  let '(ok, c', ev') := processEncryptedSig es mac base c ev in
  ev' = ev /\
  (ok = true ->
     em_intact mac = true /\ em_key mac = {| ak_sh := ake_shared c; ak_which := base + 2 |} /\ em_over mac = es /\
     es_ckey es = {| ak_sh := ake_shared c; ak_which := base |} /\ es_parses es = true /\
     es_signer es = es_pub es /\
     es_over es = {| mb_key := {| ak_sh := ake_shared c; ak_which := base + 1 |};
                     mb_gfirst := ake_theirs c; mb_gsecond := ake_ours c; mb_pub := es_pub es; mb_keyid := es_keyid es |} /\
     c_theirKey c' = Some (es_pub es) /\ c_msgState c' = c_msgState c /\ c_ssid c' = c_ssid c) /\
  (ok = false -> c' = c).
Proof. exact processEncryptedSig_spec. Qed.
Print Assumptions C01_peer_key_adopted_only_after_all_checks.

(* degenerate DH values (0, 1, p-1, p, p+1, ...) never pass the range check *)
Theorem C01_out_of_range_group_value_rejected : forall e, junk_base <= e -> e < junk_base + 16 -> isGroupElement e = false.
Proof. exact out_of_range_group_value_rejected. Qed.
Print Assumptions C01_out_of_range_group_value_rejected.

(* both ends of an exchange derive mirrored data keys, so each can read what the other sends *)
Theorem C01_agreement_keys_mirror : forall a b, a <> b ->
  sendingKey (calcSessionKeys a b) = receivingKey (calcSessionKeys b a) /\
  receivingKey (calcSessionKeys a b) = sendingKey (calcSessionKeys b a) /\
  extraKey (calcSessionKeys a b) = extraKey (calcSessionKeys b a).
Proof. exact session_keys_mirror. Qed.
Print Assumptions C01_agreement_keys_mirror.

(* completing an exchange installs the session id and role of THAT exchange *)
Theorem C01_completion_reports_this_exchange : forall now c ev,
  let '(_, c', ev') := akeHasFinished now c ev in
  c_msgState c' = c_encrypted /\
  ev' = ev ++ [evSec (if c_msgState c =? c_encrypted then c_StillSecure else c_GoneSecure)] /\
  c_ssid c' = a_ssid (the_ake c) /\ c_sentRevealSig c' = a_sentRevealSig (the_ake c) /\
  c_lastMsgStateChange c' = Some now /\
  ourKeyID (c_keys c') = ourKeyID (a_keys (the_ake c)) + 1 /\ theirKeyID (c_keys c') = theirKeyID (a_keys (the_ake c)) /\
  ourPrevious (c_keys c') = ourCurrent (a_keys (the_ake c)) /\
  counters (c_keys c') = counters (a_keys (the_ake c)) /\ macHistory (c_keys c') = macHistory (a_keys (the_ake c)).
Proof. exact akeHasFinished_spec. Qed.
Print Assumptions C01_completion_reports_this_exchange.

(* ---- over every history ----
   Whatever is handed to a conversation, in whatever order and however often (modified, truncated, injected, replayed
   from other sessions; Send, End, SMP and extra-key calls in between): if it reports itself encrypted, then among the
   messages it RECEIVED there is a signature made by the owner of exactly the peer key it reports ([es_signer = es_pub]
   = the reported key), computed over M = (MAC key of the session secret, the peer's D-H value gy, our D-H value x,
   that key, key id), where the reported session id is the one of the secret of exactly x and gy, and gy is in range.
   (Symbolic model: that a signature term with signer k can only come from the holder of k's private key is the
   idealisation of DSA; [mk_shared x gy] is the D-H secret of the two values.) *)
From OTR Require Import Proto.Lifecycle Proto.AkeAuth.
Theorem C01_encrypted_implies_peer_signed_this_exchange : forall who pol key h,
  let '(c', _) := run_calls (conv_init who pol key) h in
  c_msgState c' = c_encrypted ->
  exists es x gy w, In es (sigs_of_history h) /\ es_signer es = es_pub es /\ c_theirKey c' = Some (es_pub es) /\
    c_ssid c' = Some (mk_shared x gy) /\ isGroupElement gy = true /\
    es_over es = {| mb_key := {| ak_sh := mk_shared x gy; ak_which := w |}; mb_gfirst := gy; mb_gsecond := x;
                    mb_pub := es_pub es; mb_keyid := es_keyid es |}.
Proof. exact encrypted_implies_signed. Qed.
Print Assumptions C01_encrypted_implies_peer_signed_this_exchange.

(* the step behind it: every call keeps the exchange context consistent and either leaves (message state, reported
   key, session id) alone, or ends up not encrypted, or ends up authenticated by a signature it was handed *)
Theorem C01_every_call_keeps_authentication : forall now c op S, AInv S c ->
  let '(c', _) := step now c op in AInv (sigs_of_call op ++ S) c'.
Proof. exact step_AInv. Qed.
Print Assumptions C01_every_call_keeps_authentication.

(* ---- both sides agree, on every delivery schedule ----
   For every way one side can start an exchange (query, whitespace tag, error-triggered, Send under require-encryption,
   the same with a second user message at any moment, asking again after End, refreshes), every pair of version policies
   sharing a version, both outcomes of the commit comparison and EVERY order in which the messages in flight are
   delivered: when the network is quiet both conversations are encrypted with the same session id, show complementary
   halves of it, each reports the other's long-term key, and each side's record of the peer's newest D-H key is the key the
   peer holds under that id.  (Verified exhaustive exploration of the two-party machine; [explore_agree_sound] by
   induction, the exploration by kernel evaluation.) *)
From OTR Require Import Proto.Explore.
Theorem C01_explore_agree_sound : forall n x, explore_agree n x = true -> all_schedules_agree n x.
Proof. exact explore_agree_sound. Qed.
Print Assumptions C01_explore_agree_sound.
Theorem C01_both_sides_agree_on_every_schedule :
  forallb check_config_agree (configs [SQueryOne; SWhitespace; SErrorStart; SRequireSend; SRefresh; SRefreshBoth;
                                       SWhitespaceTwice; SRequireSendTwice; SAfterEnd; SAfterEndOther]) = true.
Proof. vm_compute; reflexivity. Qed.
Print Assumptions C01_both_sides_agree_on_every_schedule.
