(* C04 — exactly-once, in-order, unchanged delivery across DH key rotation. *)
From OTR Require Import Go.Base Bytes.Msgs Bytes.MsgsProofs Proto.SmpTypes Proto.Keys Proto.KeysProofs.
Open Scope N_scope.

(* both ends of a key pair derive mirrored keys: what one side encrypts and authenticates, the other
   decrypts and verifies (distinct DH values) *)
Theorem C04_session_keys_mirror : forall a b, a <> b ->
  sendingKey (calcSessionKeys a b) = receivingKey (calcSessionKeys b a) /\
  receivingKey (calcSessionKeys a b) = sendingKey (calcSessionKeys b a) /\
  extraKey (calcSessionKeys a b) = extraKey (calcSessionKeys b a).
Proof. exact session_keys_mirror. Qed.
Print Assumptions C04_session_keys_mirror.

(* user text (NUL-free) survives padding, serialisation and parsing unchanged *)
Theorem C04_text_unchanged : forall c, nul_free (pm_message c) -> Forall tlv_ok (pm_tlvs c) ->
  plainDataMsg_deser (plainDataMsg_ser (plainDataMsg_pad c)) = Some (plainDataMsg_pad c).
Proof. exact plainDataMsg_pad_roundtrip. Qed.
Print Assumptions C04_text_unchanged.

(* the key-id window under FIFO delivery: in EVERY schedule of sends by either side and in-order deliveries, from the
   state right after a key exchange, each message's key ids are inside the receiver's window when it arrives - no
   genuine message is refused for its key ids, whatever the interleaving and however many rotations happen *)
From OTR Require Import Proto.Ratchet.
Theorem C04_window_never_missed : forall sched, run_ok net_init sched.
Proof. exact window_never_missed_from_start. Qed.
Print Assumptions C04_window_never_missed.

(* ... and that abstraction is the key-id dynamics of the key-management model that is compared with the code:
   sending writes exactly [emit] and leaves the sender's ids alone; an accepted message was inside the window and moves
   the receiver's ids exactly as [absorb] does *)
Theorem C04_send_is_emit : forall k h flag pl d k' x, genDataMsg k h flag pl = Ok (d, k', x) ->
  msg_of d = emit (side_of k) /\ side_of k' = side_of k.
Proof. exact gen_is_emit. Qed.
Print Assumptions C04_send_is_emit.
Theorem C04_receive_is_absorb : forall k d x pl k' xk, recvDataMsg k d x = Ok (pl, k', xk) ->
  ids_in_window (side_of k) (msg_of d) /\ side_of k' = absorb (side_of k) (msg_of d).
Proof. exact recv_is_absorb. Qed.
Print Assumptions C04_receive_is_absorb.

(* the whole statement on the key-management model that is compared with the code (real key contexts, session keys,
   MAC check, per-pair counters, both rotations): from the state right after a key exchange, for EVERY interleaving of
   sends by either side and in-order deliveries - any number of messages in flight, any number of rotations - no send
   fails, no delivery is refused, and what each side's Receive has returned followed by what is still in flight is
   exactly what the other side passed to Send: nothing lost, doubled, reordered or changed.  The schedule only has to
   keep a freshly drawn exponent different from the peer's exponents ([cev_ok]; in [cstep] a failing send or a refused
   delivery would lose the text and break the equations). *)
From OTR Require Import Proto.RatchetKeys.
Theorem C04_fifo_exactly_once_in_order_unchanged : forall a1 a2 b1 b2 sched,
  own true a1 -> own true a2 -> own false b1 -> own false b2 -> Forall cev_ok sched ->
  let n := fold_left cstep sched (cinit a1 a2 b1 b2) in
  sentA n = gotB n ++ map d_payload (cAB n) /\ sentB n = gotA n ++ map d_payload (cBA n).
Proof. exact fifo_exactly_once_after_ake. Qed.
Print Assumptions C04_fifo_exactly_once_in_order_unchanged.

(* each single delivery: the head of a queue is accepted with the payload it was sent with *)
Theorem C04_head_always_accepted : forall sd ks kr d q x, vdir sd ks kr (d :: q) ->
  exists kr' xk, recvDataMsg kr d x = Ok (d_payload d, kr', xk) /\ vdir sd ks kr' q.
Proof. exact vdir_recv. Qed.
Print Assumptions C04_head_always_accepted.
