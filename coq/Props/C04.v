(* C04 — exactly-once, in-order, unchanged delivery across DH key rotation. *)
From OTR Require Import Go.Base Bytes.Msgs Bytes.MsgsProofs Proto.SmpTypes Proto.Keys Proto.KeysProofs.
Open Scope N_scope.

(* both ends of a key pair derive mirrored keys: what one side encrypts and authenticates, the other
   decrypts and verifies (distinct DH values) *)
Theorem C04_session_keys_mirror : forall a b, a <> b ->
  sendingKey (calcSessionKeys a b) = receivingKey (calcSessionKeys b a) /\
  receivingKey (calcSessionKeys a b) = sendingKey (calcSessionKeys b a) /\
  extraKey (calcSessionKeys a b) = extraKey (calcSessionKeys b a).
Proof. exact session_keys_mirror. Qed.
Print Assumptions C04_session_keys_mirror.

(* user text (NUL-free) survives padding, serialisation and parsing unchanged *)
Theorem C04_text_unchanged : forall c, nul_free (pm_message c) -> Forall tlv_ok (pm_tlvs c) ->
  plainDataMsg_deser (plainDataMsg_ser (plainDataMsg_pad c)) = Some (plainDataMsg_pad c).
Proof. exact plainDataMsg_pad_roundtrip. Qed.
Print Assumptions C04_text_unchanged.
