(* C04 — exactly-once, in-order, unchanged delivery across DH key rotation. *)
From OTR Require Import Go.Base Bytes.Msgs Bytes.MsgsProofs Proto.SmpTypes Proto.Keys Proto.KeysProofs.
Open Scope N_scope.

(* both ends of a key pair derive mirrored keys: what one side encrypts and authenticates, the other
   decrypts and verifies (distinct DH values) *)
Theorem C04_session_keys_mirror : forall a b, a <> b ->
  sendingKey (calcSessionKeys a b) = receivingKey (calcSessionKeys b a) /\
  receivingKey (calcSessionKeys a b) = sendingKey (calcSessionKeys b a) /\
  extraKey (calcSessionKeys a b) = extraKey (calcSessionKeys b a).
Proof. exact session_keys_mirror. Qed.
Print Assumptions C04_session_keys_mirror.

(* user text (NUL-free) survives padding, serialisation and parsing unchanged *)
Theorem C04_text_unchanged : forall c, nul_free (pm_message c) -> Forall tlv_ok (pm_tlvs c) ->
  plainDataMsg_deser (plainDataMsg_ser (plainDataMsg_pad c)) = Some (plainDataMsg_pad c).
Proof. exact plainDataMsg_pad_roundtrip. Qed.
Print Assumptions C04_text_unchanged.

(* the key-id window under FIFO delivery: in EVERY schedule of sends by either side and in-order deliveries, from the
   state right after a key exchange, each message's key ids are inside the receiver's window when it arrives - no
   genuine message is refused for its key ids, whatever the interleaving and however many rotations happen *)
From OTR Require Import Proto.Ratchet.
Theorem C04_window_never_missed : forall sched, run_ok net_init sched.
Proof. exact window_never_missed_from_start. Qed.
Print Assumptions C04_window_never_missed.

(* ... and that abstraction is the key-id dynamics of the key-management model that is compared with the code:
   sending writes exactly [emit] and leaves the sender's ids alone; an accepted message was inside the window and moves
   the receiver's ids exactly as [absorb] does *)
Theorem C04_send_is_emit : forall k h flag pl d k' x, genDataMsg k h flag pl = Ok (d, k', x) ->
  msg_of d = emit (side_of k) /\ side_of k' = side_of k.
Proof. exact gen_is_emit. Qed.
Print Assumptions C04_send_is_emit.
Theorem C04_receive_is_absorb : forall k d x pl k' xk, recvDataMsg k d x = Ok (pl, k', xk) ->
  ids_in_window (side_of k) (msg_of d) /\ side_of k' = absorb (side_of k) (msg_of d).
Proof. exact recv_is_absorb. Qed.
Print Assumptions C04_receive_is_absorb.
