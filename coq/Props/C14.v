(* C14 — fragmentation is lossless, bounded, and reassembled exactly once. *)
From OTR Require Import Go.Base Bytes.Strconv Bytes.Frag Bytes.FragProofs.
Open Scope N_scope.

(* every piece is at most the requested size whenever the size leaves room for one payload byte
   (piece count within what the 5-digit header can express) *)
Theorem C14_frag_bound : forall v3 its itr data fraglen, tags_ok its itr ->
  (hdr_len v3 + 2 <= N.to_nat fraglen)%nat ->
  lenN (fragment v3 its itr data fraglen) <= 99999 ->
  Forall (fun p => lenN p <= fraglen) (fragment v3 its itr data fraglen).
Proof. exact frag_bound. Qed.
Print Assumptions C14_frag_bound.

(* in-order delivery of the pieces to the receiving state machine hands on exactly one message,
   the original (count within the 16-bit index the receiver parses) *)
Theorem C14_frag_roundtrip_partial : forall its itr data fraglen,
  no_comma data -> fraglen < lenN data -> (hdr_len false + 2 <= N.to_nat fraglen)%nat ->
  lenN (fragment false its itr data fraglen) <= 65535 ->
  run_recv_v2 fc_empty (fragment false its itr data fraglen) = (fc_empty, [data]).
Proof. exact frag_roundtrip_v2. Qed.
Print Assumptions C14_frag_roundtrip_partial.

(* whatever arrives (next, restart, wrong total, duplicate, illegal index, interleaved): only the
   in-order concatenation of a complete 1..n run is ever handed on *)
Theorem C14_frag_only_complete : forall l c acc, Inv c acc -> arrivals_ok l ->
  forall m, In m (snd (frag_run c l)) ->
  exists acc', complete_stream acc' m /\ incl acc' (acc ++ l).
Proof. exact frag_only_complete. Qed.
Print Assumptions C14_frag_only_complete.

(* ... and every hand-over consumes its own final piece: no completed message is processed again *)
Theorem C14_frag_once : forall l c acc, Inv c acc -> arrivals_ok l ->
  (length (snd (frag_run c l)) <= length (filter (fun a => N.eqb (ar_ix a) (ar_len a)) l))%nat.
Proof. exact frag_once. Qed.
Print Assumptions C14_frag_once.

(* the wire form of a piece parses back to (payload, index, total) *)
Theorem C14_piece_parses : forall k n d, k <= 65535 -> n <= 65535 -> no_comma d ->
  parseFragment (fmt_d 5 k ++ [comma] ++ fmt_d 5 n ++ [comma] ++ d ++ [comma]) = Some (d, k, n).
Proof. exact parseFragment_piece. Qed.
Print Assumptions C14_piece_parses.

(* non-vacuity *)
Example C14_example :
  run_recv_v2 fc_empty (fragment false 0 0 [97;98;99;100;101;102;103;104;105;106;107;108;109;110;111;112;113;114;115;116;117;118;119;120] 21)
  = (fc_empty, [[97;98;99;100;101;102;103;104;105;106;107;108;109;110;111;112;113;114;115;116;117;118;119;120]]).
Proof. vm_compute; reflexivity. Qed.

(* the same for the version 3 wire format (23-byte prefix with the instance tags): the pieces, delivered in order to a
   version 3 conversation they are addressed to (receiver tag ours or none; sender tag legal and not another instance
   than the one the conversation is bound to), reassemble to exactly the original, once, and bind the conversation to
   the sender (Bytes/FragV3.v mirrors otrV3.parseFragmentPrefix + verifyInstanceTags in front of the same reassembly) *)
From OTR Require Import Gen.Consts Bytes.FragV3 Bytes.FragV3Proofs.
Theorem C14_frag_roundtrip_v3_partial : forall our their its itr data fraglen,
  addressed our their its itr ->
  no_comma data -> fraglen < lenN data -> (hdr_len true + 2 <= N.to_nat fraglen)%nat ->
  lenN (fragment true its itr data fraglen) <= 65535 ->
  run_recv_v3 our (fc_empty, their) (fragment true its itr data fraglen) = ((fc_empty, its), [data]).
Proof. exact frag_roundtrip_v3. Qed.
Print Assumptions C14_frag_roundtrip_v3_partial.

Example C14_example_v3 :
  let data := map N.of_nat (seq 97 26 ++ seq 65 26) in
  run_recv_v3 517 (fc_empty, 0) (fragment true 769 517 data 40) = ((fc_empty, 769), [data]) /\
  run_recv_v3 517 (fc_empty, 770) (fragment true 769 517 data 40) = ((fc_empty, 770), []).
Proof. vm_compute; auto. Qed.
