(* C07 — the key exchange always completes on a reliable network, however it is started. *)
From OTR Require Import Go.Base Proto.Conv Proto.Run Proto.Explore.
Open Scope N_scope.

(* the search is sound: if it answers true then EVERY delivery schedule of the two FIFO queues reaches,
   within the given number of deliveries, a quiescent state with both sides encrypted in one common session *)
Theorem C07_explore_sound : forall n x, explore n x = true -> all_schedules_ok n x.
Proof. exact explore_sound. Qed.
Print Assumptions C07_explore_sound.

(* single-sided starts (query, whitespace tag, error-triggered, Send under require-encryption), the same with a second
   user message arriving at any moment of the exchange, asking again at once after End, and refreshes of an
   established session, for every pair of version policies sharing a version and both outcomes of the
   commitment-hash comparison: every schedule completes *)
Theorem C07_ake_live_partial :
  forallb check_config (configs [SQueryOne; SWhitespace; SErrorStart; SRequireSend; SRefresh; SRefreshBoth;
                                 SWhitespaceTwice; SRequireSendTwice; SAfterEnd; SAfterEndOther]) = true.
Proof. vm_compute; reflexivity. Qed.
Print Assumptions C07_ake_live_partial.

(* the full statement is refuted by the model (and by the code): when both sides start at the same moment the
   side with the higher commitment hash moves to AWAITING_REVEALSIG and the exchange never completes *)
Theorem C07_ake_live_simultaneous_start_refuted :
  forallb check_config (configs [SQueryBoth]) = false.
Proof. vm_compute; reflexivity. Qed.
Print Assumptions C07_ake_live_simultaneous_start_refuted.
