(* C12 — deviant SMP messages never produce success, a crash or a stuck state machine. *)
From OTR Require Import Go.Base Gen.Consts Proto.SmpTypes Proto.Smp Proto.SmpInst Proto.SmpProofs.
Open Scope N_scope.

Theorem C12_responder_success_only_after_all_checks : forall q H s x pl rnd,
  In evSuccess (sr_events (receive3 q H s x pl rnd)) ->
  sm_state s = 3 /\ exists s2, sm_s2 s = Some s2 /\
    let v := sp_vals pl in
    let pa := el_at v 0 in let qa := el_at v 1 in let cp := num_at v 2 in
    let d5 := num_at v 3 in let d6 := num_at v 4 in let ra := el_at v 5 in
    let cr := num_at v 6 in let d7 := num_at v 7 in
    in_range q (x_v3 x) pa = true /\ in_range q (x_v3 x) qa = true /\ in_range q (x_v3 x) ra = true /\
    verifyZKP2 q H (s2_g2 s2) (s2_g3 s2) d5 d6 pa qa cp 6 = true /\
    exists qaqb papb, el_div q qa (s2_qb s2) = Some qaqb /\ el_div q pa (s2_pb s2) = Some papb /\
      verifyZKP4 q H cr (s2_g3a s2) d7 qaqb ra 7 = true /\
      el_eqb q (el_exp q ra (s2_b3 s2)) papb = true.
Proof. exact success3_only_after_all_checks. Qed.
Print Assumptions C12_responder_success_only_after_all_checks.

Theorem C12_initiator_success_only_after_all_checks : forall q H s x pl,
  In evSuccess (sr_events (receive4 q H s x pl)) ->
  sm_state s = 4 /\ exists s1 s3, sm_s1 s = Some s1 /\ sm_s3 s = Some s3 /\
    let v := sp_vals pl in
    let rb := el_at v 0 in let cr := num_at v 1 in let d7 := num_at v 2 in
    in_range q (x_v3 x) rb = true /\ verifyZKP4 q H cr (s3_g3b s3) d7 (s3_qaqb s3) rb 8 = true /\
    el_eqb q (el_exp q rb (s1_a3 s1)) (s3_papb s3) = true.
Proof. exact success4_only_after_all_checks. Qed.
Print Assumptions C12_initiator_success_only_after_all_checks.

(* Version 2 performs no range checks.  A peer that chooses the exponents a2 = a3 = 0 (so g2a = g3a = 1) and does
   NOT know the secret makes the honest responder report success: the full property is refuted for version 2
   (known finding; under version 3 the same messages are answered with "cheated"). *)
Definition ctxA (v3 : bool) := {| x_encrypted := true; x_v3 := v3; x_ourFp := 1; x_theirFp := 2; x_ssid := (5, 6) |}.
Definition ctxB (v3 : bool) := {| x_encrypted := true; x_v3 := v3; x_ourFp := 2; x_theirFp := 1; x_ssid := (5, 6) |}.
Definition degenerate_run (v3 : bool) : list N * list N :=
  let a1 := smp_user_i smp_init (ctxA v3) (SStart [] [1]) [0; 0; 0; 0] in
  match sr_reply a1 with
  | (ty1, pl1) :: _ =>
      let b1 := smp_receive_i (smp_ensure smp_init) (ctxB v3) ty1 pl1 [] in
      let b2 := smp_user_i (sr_st b1) (ctxB v3) (SProvide [2]) [3; 5; 7; 11; 13; 17; 19] in
      match sr_reply b2 with
      | (ty2, pl2) :: _ =>
          let a2 := smp_receive_i (sr_st a1) (ctxA v3) ty2 pl2 [23; 29; 31; 37] in
          match sr_reply a2 with
          | (ty3, pl3) :: _ =>
              let b3 := smp_receive_i (sr_st b2) (ctxB v3) ty3 pl3 [41] in
              (sr_events b1 ++ sr_events b3, sr_events a2)
          | [] => (sr_events b1, sr_events a2)
          end
      | [] => (sr_events b1, [])
      end
  | [] => ([], [])
  end.

Example C12_no_false_success_v2_refuted : In evSuccess (fst (degenerate_run false)).
Proof. vm_compute; tauto. Qed.
Example C12_degenerate_rejected_v3 : fst (degenerate_run true) = [evCheated].
Proof. vm_compute; reflexivity. Qed.

(* ---- no crash, no wedge, over every history (version 3) ----
   The Go code panics where ModInverse returns nil (a divisor that is 0 mod p) or where a state record it is about to
   read is missing; the mirror reports both as [sr_panic].  For EVERY history of user calls and received SMP messages
   of any content (values out of range, zero, of unknown structure, wrong types, in any order, any randomness) under
   protocol version 3, starting from a new SMP context, no step panics. *)
From OTR Require Import Proto.SmpSafe.
Theorem C12_never_panics_v3 : forall x h, x_v3 x = true ->
  fst (smp_run g_q Hc secretHashC x smp_init h) = false.
Proof. exact (never_panics_v3_init g_q Hc secretHashC). Qed.
Print Assumptions C12_never_panics_v3.

(* ... and the machine is never wedged: in an encrypted session, whatever state the SMP context is in, the user's
   next "start" goes through (an abort of the old run and message 1 of the new one are sent) *)
Theorem C12_can_always_restart : forall s x question secret rnd, x_encrypted x = true ->
  let r := smp_user g_q Hc secretHashC s x (SStart question secret) rnd in
  sr_err r = false /\ sm_state (sr_st r) = 2 /\ sr_reply r <> [].
Proof. exact (can_always_restart g_q Hc secretHashC). Qed.
Print Assumptions C12_can_always_restart.
