(* C06 — a rejected message leaves the session exactly as it was. *)
From OTR Require Import Go.Base Gen.Consts Bytes.Text Proto.SmpTypes Proto.Keys Proto.Smp Proto.Conv Proto.ConvProofs.
From RecordUpdate Require Import RecordSet.
Import RecordSetNotations.
Open Scope N_scope.

(* data messages: whatever check fails (does not parse, key ids outside the window, authenticator does not
   verify, counter not above the stored one), the conversation afterwards equals the conversation before;
   nothing is delivered and nothing but the optional error reply is sent *)
Theorem C06_rejected_data_message_is_inert : forall now c ver stag rtag d aux rnd e,
  isOTREnabled (c_policies c) = true -> c_msgState c = c_encrypted -> header_ok c ver stag rtag ->
  recvDataMsg (c_keys c) d (fst (draw c)) = Err e ->
  let '(c', r) := step now c (CReceive (WEnc ver stag rtag (EData d)) aux rnd) in
  r_plain r = None /\
  (exists errs, r_out r = (if r_err r =? 0 then [] else []) ++ c_injections c ++ errs /\
                (errs = [] \/ exists t, errs = [WError t])) /\
  c' = c <| c_injections := [] |>.
Proof. exact rejected_data_message_is_inert. Qed.
Print Assumptions C06_rejected_data_message_is_inert.
