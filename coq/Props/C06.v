(* C06 — a rejected message leaves the session exactly as it was. *)
From OTR Require Import Go.Base Gen.Consts Bytes.Text Proto.SmpTypes Proto.Keys Proto.Smp Proto.Conv Proto.ConvProofs.
From RecordUpdate Require Import RecordSet.
Import RecordSetNotations.
Open Scope N_scope.

(* data messages: whatever check fails (does not parse, key ids outside the window, authenticator does not
   verify, counter not above the stored one), the conversation afterwards equals the conversation before;
   nothing is delivered and nothing but the optional error reply is sent *)
Theorem C06_rejected_data_message_is_inert : forall now c ver stag rtag d aux rnd e,
  isOTREnabled (c_policies c) = true -> c_msgState c = c_encrypted -> header_ok c ver stag rtag ->
  recvDataMsg (c_keys c) d (fst (draw c)) = Err e ->
  let '(c', r) := step now c (CReceive (WEnc ver stag rtag (EData d)) aux rnd) in
  r_plain r = None /\
  (exists errs, r_out r = (if r_err r =? 0 then [] else []) ++ c_injections c ++ errs /\
                (errs = [] \/ exists t, errs = [WError t])) /\
  c' = c <| c_injections := [] |>.
Proof. exact rejected_data_message_is_inert. Qed.
Print Assumptions C06_rejected_data_message_is_inert.

(* in the key exchange: a Signature message that fails the MAC, the decryption or the signature check *)
Theorem C06_rejected_signature_is_inert : forall now c ver stag rtag es mac aux rnd a,
  isOTREnabled (c_policies c) = true -> header_ok c ver stag rtag ->
  c_ake c = Some a -> a_state a = 3 ->
  fst (fst (processEncryptedSig es mac 4 c [])) = false ->
  let '(c', r) := step now c (CReceive (WEnc ver stag rtag (EAke (BSig es mac))) aux rnd) in
  r_plain r = None /\ r_out r = c_injections c /\ r_err r = 1 /\ r_events r = [c_MessageEventSetupError] /\
  c' = c <| c_injections := [] |>.
Proof. exact rejected_signature_is_inert. Qed.
Print Assumptions C06_rejected_signature_is_inert.

(* a version 3 message for / from another instance (any type, any body) *)
Theorem C06_foreign_instance_message_is_inert : forall now c stag rtag body aux rnd,
  isOTREnabled (c_policies c) = true -> c_version c = 3 ->
  c_minValidInstanceTag <= stag -> (rtag = 0 \/ c_minValidInstanceTag <= rtag) ->
  ((rtag <> 0 /\ rtag <> c_ourTag c) \/ (c_theirTag c <> 0 /\ stag <> c_theirTag c)) ->
  let '(c', r) := step now c (CReceive (WEnc 3 stag rtag body) aux rnd) in
  r_plain r = None /\ r_out r = c_injections c /\ r_err r = 0 /\
  r_events r = [c_MessageEventReceivedMessageForOtherInstance] /\
  c' = c <| c_injections := [] |>.
Proof. exact foreign_instance_ignored. Qed.
Print Assumptions C06_foreign_instance_message_is_inert.

(* an unreadable D-H Commit leaves an exchange that is in progress alone *)
Theorem C06_unreadable_commit_is_inert : forall now c ver stag rtag flag aux rnd a,
  isOTREnabled (c_policies c) = true -> header_ok c ver stag rtag ->
  c_ake c = Some a -> (a_state a = 2 \/ a_state a = 3) ->
  let '(c', r) := step now c (CReceive (WEnc ver stag rtag (EBadBody c_msgTypeDHCommit flag)) aux rnd) in
  r_plain r = None /\ r_out r = c_injections c /\ r_err r = 1 /\ r_events r = [c_MessageEventSetupError] /\
  c' = c <| c_injections := [] |>.
Proof. exact unreadable_commit_is_inert. Qed.
Print Assumptions C06_unreadable_commit_is_inert.

(* an encoded message of another protocol version than the one the conversation is committed to (any type, any body) *)
From OTR Require Import Proto.Inert.
Theorem C06_wrong_version_is_inert : forall now c ver stag rtag body aux rnd,
  isOTREnabled (c_policies c) = true -> c_version c <> 0 -> ver <> c_version c ->
  let '(c', r) := step now c (CReceive (WEnc ver stag rtag body) aux rnd) in
  r_plain r = None /\ r_out r = c_injections c /\ r_err r = 1 /\ r_events r = [] /\
  c' = c <| c_injections := [] |>.
Proof. exact wrong_version_is_inert. Qed.
Print Assumptions C06_wrong_version_is_inert.

(* a D-H Key message with an out-of-range value, while it is awaited or after it was accepted *)
Theorem C06_out_of_range_dhkey_is_inert : forall now c ver stag rtag gy aux rnd a,
  isOTREnabled (c_policies c) = true -> header_ok c ver stag rtag ->
  c_ake c = Some a -> (a_state a = 1 \/ a_state a = 3) -> isGroupElement gy = false ->
  let '(c', r) := step now c (CReceive (WEnc ver stag rtag (EAke (BKey gy))) aux rnd) in
  r_plain r = None /\ r_out r = c_injections c /\ r_err r = 1 /\ r_events r = [c_MessageEventSetupError] /\
  c' = c <| c_injections := [] |>.
Proof. exact out_of_range_dhkey_is_inert. Qed.
Print Assumptions C06_out_of_range_dhkey_is_inert.
